#!/bin/bash
# Regenerates every committed evidence file from a quick run (VERIF_SEED=1) on the
# unchanged tree, one property after the other; prints exit code and seconds per check.
cd "$(dirname "$0")"
ids="${*:-$(python3 -c "import json;print(' '.join(c['property_id'] for c in json.load(open('MANIFEST.json'))['checks']))")}"
for id in $ids; do
  s=$(date +%s); rm -f evidence/$id.json
  VERIF_SEED=1 VERIF_TIER=quick ./check $id quick > /tmp/regen-$id.log 2>&1; rc=$?
  echo "$id exit=$rc secs=$(( $(date +%s) - s )) $(grep -c '^VIOLATION' /tmp/regen-$id.log) violations"
done
