#!/usr/bin/env python3
"""Regenerates MANIFEST.json from harness/*/config.json + harness/*/manifest.json fragments."""
import json, os, glob
root = os.path.dirname(os.path.abspath(__file__))
checks = []
for frag in sorted(glob.glob(os.path.join(root, "harness", "C*", "manifest.json"))):
    m = json.load(open(frag))
    pid = m["property_id"]
    checks.append({
        "property_id": pid,
        "quick_cmd": f"./check {pid} quick",
        "thorough_cmd": f"./check {pid} thorough",
        "evidence_file": f"evidence/{pid}.json",
        "replay_cmd_template": "bin/gosym -replay {path}",
        "engine": "gosym",
        "level_claimed": {"category": "model_checking", "text": m["level_text"], "design_ref": m.get("design_ref", f"DESIGN.md section 3, {pid}")},
        "level_note": m["level_note"],
        "technique": m.get("technique", "bounded symbolic execution of the real Go functions (go/ssa -> SMT), z3 decides every branch and assertion; counterexamples replayed natively"),
    })
na = json.load(open(os.path.join(root, "not_applicable.json")))
claimed = {c["property_id"] for c in checks}
na = [x for x in na if x["property_id"] not in claimed]
listed = claimed | {x["property_id"] for x in na}
for l in open(os.path.join(root, "properties.jsonl")):
    pid = json.loads(l)["id"]
    if pid not in listed:
        na.append({"property_id": pid, "reason": "no check is registered: the harness planned in DESIGN.md section 3 was not built (or, for C15, not finished) in the time available, so nothing is claimed for it"})
manifest = {
    "version": 1,
    "setup_cmd": "cd gosym && GOFLAGS=-mod=mod GOPROXY=off GOTOOLCHAIN=local go1.26.8 build -o ../bin/gosym ./cmd/gosym",
    "hooks": {
        "guard": "verif",
        "enable": "harness files carry //go:build verif and are injected with go/packages Overlay (engine) and go test -overlay -tags verif (replay); nothing is compiled into /repo without the tag",
        "baseline_off_cmd": "cd /repo && GOFLAGS=-mod=mod go test -vet=off -count=1 -timeout 25m ./...",
        "source_commits": [],
        "add_only": True,
    },
    "engines": [{"name": "gosym", "path": "gosym", "serves_properties": sorted(claimed),
                 "kind_free_text": "SSA symbolic executor for Go written for this task (go/ssa from /repo's working tree -> SMT-LIB2, z3 4.8.12 incremental; forking path exploration, bv and lia integer encodings, native replay of models via go test -overlay)"}],
    "checks": checks,
    "not_applicable": na,
    "notes": "Every check is bounded symbolic execution of the real code; results are 'holds for every input within the stated bounds'. Exit 2 = inconclusive (never reported as success): out-of-encoding, bound exceeded, solver unknown after a retry in a fresh process, vacuous harness, or a native witness replay that disagrees with the engine. Every run also replays solver-chosen inputs of completed engine paths natively against the real build (traces_validated_against_impl). Committed evidence files are the output of the quick commands with VERIF_SEED=1 on the unchanged tree. Genuine defects: known_findings.jsonl. History of corrections to the machinery: DESIGN.md section 8.",
}
json.dump(manifest, open(os.path.join(root, "MANIFEST.json"), "w"), indent=1)
print("checks:", sorted(claimed)); print("not_applicable:", [x["property_id"] for x in na])
