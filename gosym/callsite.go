package gosym

import (
	"fmt"
	"go/constant"
	"go/types"
	"strings"

	"golang.org/x/tools/go/ssa"
)

// findFunction resolves a fully qualified SSA function name such as
//   github.com/x/y.Func      or      (*github.com/x/y.T).Method
func (w *World) findFunction(name string) *ssa.Function {
	w.buildMu.Lock()
	defer w.buildMu.Unlock()
	recv, ptr := "", false
	pkgFn := name
	if strings.HasPrefix(name, "(") {
		i := strings.Index(name, ").")
		if i < 0 {
			return nil
		}
		recv = name[1:i]
		pkgFn = name[i+2:]
		if strings.HasPrefix(recv, "*") {
			ptr = true
			recv = recv[1:]
		}
		j := strings.LastIndex(recv, ".")
		pkgPath, typ := recv[:j], recv[j+1:]
		for _, p := range w.Prog.AllPackages() {
			if p.Pkg.Path() != pkgPath {
				continue
			}
			p.Build()
			o := p.Pkg.Scope().Lookup(typ)
			if o == nil {
				return nil
			}
			var t types.Type = o.Type()
			if ptr {
				t = types.NewPointer(t)
			}
			ms := w.Prog.MethodSets.MethodSet(t)
			for k := 0; k < ms.Len(); k++ {
				if ms.At(k).Obj().Name() == pkgFn {
					return w.Prog.MethodValue(ms.At(k))
				}
			}
		}
		return nil
	}
	j := strings.LastIndex(pkgFn, ".")
	pkgPath, fn := pkgFn[:j], pkgFn[j+1:]
	for _, p := range w.Prog.AllPackages() {
		if p.Pkg.Path() == pkgPath {
			p.Build()
			return p.Func(fn)
		}
	}
	return nil
}

func allFuncsIn(fn *ssa.Function, out *[]*ssa.Function) {
	*out = append(*out, fn)
	for _, a := range fn.AnonFuncs {
		allFuncsIn(a, out)
	}
}

// callSiteConsts collects the constant integer values passed as argument
// argIdx in every static call to callee inside fn (and its closures).
func (w *World) callSiteConsts(fn *ssa.Function, callee string, argIdx int) ([][]int64, error) {
	var fns []*ssa.Function
	allFuncsIn(fn, &fns)
	var out [][]int64
	for _, f := range fns {
		for _, b := range f.Blocks {
			for _, ins := range b.Instrs {
				cc, ok := ins.(ssa.CallInstruction)
				if !ok {
					continue
				}
				sc := cc.Common().StaticCallee()
				if sc == nil || sc.String() != callee {
					continue
				}
				args := cc.Common().Args
				if argIdx >= len(args) {
					return nil, fmt.Errorf("call to %s in %s has %d args", callee, f, len(args))
				}
				vals, ok := constValues(args[argIdx], 0)
				if !ok {
					return nil, fmt.Errorf("argument %d of %s in %s (%s) is not built from compile-time integer constants", argIdx, callee, f, w.pos(ins.Pos()))
				}
				out = append(out, vals)
			}
		}
	}
	return out, nil
}

// constValues: the integer constants that can reach v: a constant, or a phi (possibly
// nested, through conversions) whose every edge is one.
func constValues(v ssa.Value, depth int) ([]int64, bool) {
	if depth > 8 {
		return nil, false
	}
	switch x := v.(type) {
	case *ssa.Const:
		if x.Value == nil {
			return nil, false
		}
		n, ok := constant.Int64Val(constant.ToInt(x.Value))
		if !ok {
			return nil, false
		}
		return []int64{n}, true
	case *ssa.Convert:
		return constValues(x.X, depth+1)
	case *ssa.ChangeType:
		return constValues(x.X, depth+1)
	case *ssa.Phi:
		var out []int64
		for _, e := range x.Edges {
			vs, ok := constValues(e, depth+1)
			if !ok {
				return nil, false
			}
			for _, n := range vs {
				dup := false
				for _, m := range out {
					if m == n {
						dup = true
					}
				}
				if !dup {
					out = append(out, n)
				}
			}
		}
		return out, len(out) > 0
	}
	return nil, false
}
