package gosym

import (
	"fmt"
	"go/token"
	"go/types"
	"math/big"
)

// arith implements integer + - * / % & | ^ &^ << >> on terms of one Go type.
func (e *Exec) arith(op token.Token, ni numInfo, a, b *Term) *Term {
	tb := e.tb
	if e.mode == "lia" {
		return e.arithLIA(op, ni, a, b)
	}
	switch op {
	case token.ADD:
		return tb.bvBin("bvadd", a, b)
	case token.SUB:
		return tb.bvBin("bvsub", a, b)
	case token.MUL:
		return tb.bvBin("bvmul", a, b)
	case token.QUO:
		e.divZeroCheck(b)
		if ni.Signed {
			return tb.bvBin("bvsdiv", a, b)
		}
		return tb.bvBin("bvudiv", a, b)
	case token.REM:
		e.divZeroCheck(b)
		if ni.Signed {
			return tb.bvBin("bvsrem", a, b)
		}
		return tb.bvBin("bvurem", a, b)
	case token.AND:
		return tb.bvBin("bvand", a, b)
	case token.OR:
		return tb.bvBin("bvor", a, b)
	case token.XOR:
		return tb.bvBin("bvxor", a, b)
	case token.AND_NOT:
		return tb.bvBin("bvand", a, tb.BVNot(b))
	}
	panic("arith " + op.String())
}

func (e *Exec) divZeroCheck(b *Term) {
	var z *Term
	if b.S.K == KInt {
		z = e.tb.Inti(0)
	} else {
		z = e.tb.BVi(b.S.W, 0)
	}
	if e.branch(e.tb.Eq(b, z)) {
		e.goPanicf("integer divide by zero")
	}
}

// truncated division on mathematical integers
func (e *Exec) tdiv(a, b *Term) *Term {
	tb := e.tb
	if a.Const && b.Const {
		return tb.Int(new(big.Int).Quo(a.I, b.I))
	}
	zero := tb.Inti(0)
	if b.Const && b.I.Sign() > 0 {
		if a.Lo != nil && a.Lo.Sign() >= 0 {
			return tb.IDivE(a, b)
		}
		return tb.Ite(tb.ILe(zero, a), tb.IDivE(a, b), tb.INeg(tb.IDivE(tb.INeg(a), b)))
	}
	if b.Const && b.I.Sign() < 0 {
		nb := tb.Int(new(big.Int).Neg(b.I))
		return tb.INeg(e.tdiv(a, nb))
	}
	absA := tb.Ite(tb.ILe(zero, a), a, tb.INeg(a))
	absB := tb.Ite(tb.ILe(zero, b), b, tb.INeg(b))
	q := tb.IDivE(absA, absB)
	same := tb.Eq(tb.ILe(zero, a), tb.ILe(zero, b))
	return tb.Ite(same, q, tb.INeg(q))
}

func (e *Exec) trem(a, b *Term) *Term {
	tb := e.tb
	if a.Const && b.Const {
		return tb.Int(new(big.Int).Rem(a.I, b.I))
	}
	if b.Const && b.I.Sign() > 0 && a.Lo != nil && a.Lo.Sign() >= 0 {
		return tb.IModE(a, b)
	}
	return tb.ISub(a, tb.IMul(e.tdiv(a, b), b))
}

func (e *Exec) arithLIA(op token.Token, ni numInfo, a, b *Term) *Term {
	tb := e.tb
	wrap := func(t *Term) *Term { return tb.IWrap(t, ni.W, ni.Signed) }
	switch op {
	case token.ADD:
		return wrap(tb.IAdd(a, b))
	case token.SUB:
		return wrap(tb.ISub(a, b))
	case token.MUL:
		return wrap(tb.IMul(a, b))
	case token.QUO:
		e.divZeroCheck(b)
		return wrap(e.tdiv(a, b)) // MinInt64 / -1 wraps
	case token.REM:
		e.divZeroCheck(b)
		return e.trem(a, b)
	case token.AND:
		if a.Const && b.Const {
			return e.foldBits(op, ni, a, b)
		}
		// x & (2^k-1)  ==  x mod 2^k
		for _, pr := range [][2]*Term{{a, b}, {b, a}} {
			x, m := pr[0], pr[1]
			if m.Const && m.I.Sign() >= 0 {
				p := new(big.Int).Add(m.I, bigOne)
				if p.BitLen() > 0 && new(big.Int).And(p, m.I).Sign() == 0 { // p is a power of two
					return tb.IModE(x, tb.Int(p))
				}
			}
		}
	case token.OR, token.XOR, token.AND_NOT:
		if a.Const && b.Const {
			return e.foldBits(op, ni, a, b)
		}
	}
	e.ooe("lia mode: bitwise %v on symbolic integers", op)
	return nil
}

func (e *Exec) foldBits(op token.Token, ni numInfo, a, b *Term) *Term {
	x, y := normU(a.I, ni.W), normU(b.I, ni.W)
	r := new(big.Int)
	switch op {
	case token.AND:
		r.And(x, y)
	case token.OR:
		r.Or(x, y)
	case token.XOR:
		r.Xor(x, y)
	case token.AND_NOT:
		r.AndNot(x, y)
	}
	return e.intConstBig(ni, r)
}

func (e *Exec) shift(op token.Token, ni, yi numInfo, a, b *Term) *Term {
	tb := e.tb
	// negative shift count panics
	if yi.Signed {
		var neg *Term
		if e.mode == "lia" {
			neg = tb.ILt(b, tb.Inti(0))
		} else {
			neg = tb.bvCmp("bvslt", b, tb.BVi(b.S.W, 0))
		}
		if e.branch(neg) {
			e.goPanicf("negative shift amount")
		}
	}
	if e.mode == "lia" {
		c, ok := e.concInt(b, yi)
		if !ok {
			k := e.concretizeInt(b, "shift count")
			c = int64(k)
		}
		if c >= int64(ni.W) {
			if op == token.SHR && ni.Signed {
				return tb.Ite(tb.ILt(a, tb.Inti(0)), tb.Inti(-1), tb.Inti(0))
			}
			return tb.Inti(0)
		}
		p := tb.Int(pow2(int(c)))
		if op == token.SHL {
			return tb.IWrap(tb.IMul(a, p), ni.W, ni.Signed)
		}
		return tb.IDivE(a, p) // floor division == arithmetic shift
	}
	// bv mode: bring the count to x's width, saturating
	w := ni.W
	var cnt *Term
	var big_ *Term // count >= w
	if b.S.W > w {
		big_ = tb.Not(tb.bvCmp("bvult", b, tb.BVi(b.S.W, int64(w))))
		cnt = tb.Extract(w-1, 0, b)
	} else {
		cnt = tb.ZExt(w, b)
		big_ = tb.False
	}
	var r, sat *Term
	switch {
	case op == token.SHL:
		r = tb.bvBin("bvshl", a, cnt)
		sat = tb.BVi(w, 0)
	case ni.Signed:
		r = tb.bvBin("bvashr", a, cnt)
		sat = tb.bvBin("bvashr", a, tb.BVi(w, int64(w-1)))
	default:
		r = tb.bvBin("bvlshr", a, cnt)
		sat = tb.BVi(w, 0)
	}
	return tb.Ite(big_, sat, r)
}

func (e *Exec) intCmp(op token.Token, ni numInfo, a, b *Term) *Term {
	tb := e.tb
	if e.mode == "lia" {
		switch op {
		case token.LSS:
			return tb.ILt(a, b)
		case token.LEQ:
			return tb.ILe(a, b)
		case token.GTR:
			return tb.ILt(b, a)
		case token.GEQ:
			return tb.ILe(b, a)
		}
	}
	u := "u"
	if ni.Signed {
		u = "s"
	}
	switch op {
	case token.LSS:
		return tb.bvCmp("bv"+u+"lt", a, b)
	case token.LEQ:
		return tb.bvCmp("bv"+u+"le", a, b)
	case token.GTR:
		return tb.bvCmp("bv"+u+"lt", b, a)
	case token.GEQ:
		return tb.bvCmp("bv"+u+"le", b, a)
	}
	panic("intCmp")
}

func (e *Exec) binop(op token.Token, xt, yt types.Type, x, y Value) Value {
	tb := e.tb
	switch op {
	case token.EQL:
		return e.valueEq(x, y)
	case token.NEQ:
		return tb.Not(e.valueEq(x, y))
	}
	ni, isBasic := basicInfo(xt)
	if !isBasic {
		e.ooe("binop %v on %v", op, xt)
	}
	switch {
	case ni.Str:
		a, b := e.plainStr(x.(*StrV)), e.plainStr(y.(*StrV))
		switch op {
		case token.ADD:
			if len(a.B) == 0 {
				return b
			}
			if len(b.B) == 0 {
				return a
			}
			nb := make([]*Term, 0, len(a.B)+len(b.B))
			nb = append(nb, a.B...)
			nb = append(nb, b.B...)
			return &StrV{B: nb}
		case token.LSS:
			return e.strLess(a, b, false)
		case token.LEQ:
			return e.strLess(a, b, true)
		case token.GTR:
			return e.strLess(b, a, false)
		case token.GEQ:
			return e.strLess(b, a, true)
		}
	case ni.Int:
		a, b := x.(*Term), y.(*Term)
		switch op {
		case token.SHL, token.SHR:
			yi, _ := basicInfo(yt)
			return e.shift(op, ni, yi, a, b)
		case token.LSS, token.LEQ, token.GTR, token.GEQ:
			return e.intCmp(op, ni, a, b)
		default:
			return e.arith(op, ni, a, b)
		}
	case ni.Float:
		a, b := x.(*Term), y.(*Term)
		switch op {
		case token.ADD:
			return tb.fpBin("fp.add", a, b)
		case token.SUB:
			return tb.fpBin("fp.sub", a, b)
		case token.MUL:
			return tb.fpBin("fp.mul", a, b)
		case token.QUO:
			return tb.fpBin("fp.div", a, b)
		case token.LSS:
			return tb.fpCmp("fp.lt", a, b)
		case token.LEQ:
			return tb.fpCmp("fp.leq", a, b)
		case token.GTR:
			return tb.fpCmp("fp.gt", a, b)
		case token.GEQ:
			return tb.fpCmp("fp.geq", a, b)
		}
	case ni.Bool:
		a, b := x.(*Term), y.(*Term)
		switch op {
		case token.AND, token.LAND:
			return tb.And(a, b)
		case token.OR, token.LOR:
			return tb.Or(a, b)
		}
	}
	e.ooe("binop %v on %v", op, xt)
	return nil
}

func (e *Exec) strLess(a, b *StrV, orEq bool) *Term {
	tb := e.tb
	// lexicographic: build from the end
	n := len(a.B)
	if len(b.B) < n {
		n = len(b.B)
	}
	// result when common prefix equal:
	var res *Term
	if len(a.B) < len(b.B) {
		res = tb.True
	} else if len(a.B) == len(b.B) {
		res = tb.Bool(orEq)
	} else {
		res = tb.False
	}
	for i := n - 1; i >= 0; i-- {
		lt := e.intCmp(token.LSS, niByte, a.B[i], b.B[i])
		eq := tb.Eq(a.B[i], b.B[i])
		res = tb.Or(lt, tb.And(eq, res))
	}
	return res
}

// valueEq builds the equality term of two values of the same static type.
func (e *Exec) valueEq(x, y Value) *Term {
	tb := e.tb
	switch a := x.(type) {
	case nil:
		return tb.Bool(e.isNilValue(y))
	case *Term:
		return tb.Eq(a, y.(*Term))
	case *StrV:
		return e.strEq(a, y.(*StrV))
	case Ptr:
		b, ok := y.(Ptr)
		if !ok {
			return tb.Bool(e.isNilValue(y) && a.IsNil())
		}
		if a.Arr != nil || b.Arr != nil {
			if a.Arr == b.Arr && a.Arr != nil {
				return tb.Eq(a.Idx, b.Idx)
			}
			e.ooe("comparison of symbolic element pointers")
		}
		return tb.Bool(a.L == b.L && a.Tag == b.Tag)
	case SliceV:
		b, _ := y.(SliceV)
		// only comparison with nil is legal
		if a.Arr == nil || b.Arr == nil {
			return tb.Bool(a.Arr == nil && b.Arr == nil)
		}
		e.ooe("slice comparison")
	case *MapV:
		b, _ := y.(*MapV)
		return tb.Bool(a == b)
	case *ChanV:
		b, _ := y.(*ChanV)
		return tb.Bool(a == b)
	case *FuncV:
		b, _ := y.(*FuncV)
		return tb.Bool(a == nil && b == nil)
	case IfaceV:
		b, ok := y.(IfaceV)
		if !ok {
			return tb.Bool(a.T == nil && e.isNilValue(y))
		}
		if a.T == nil || b.T == nil {
			return tb.Bool(a.T == nil && b.T == nil)
		}
		if !types.Identical(a.T, b.T) {
			return tb.False
		}
		if !types.Comparable(a.T) {
			e.goPanicf("comparing uncomparable type %v", a.T)
		}
		return e.valueEq(a.V, b.V)
	case *StructV:
		b := y.(*StructV)
		var cs []*Term
		for i := range a.F {
			cs = append(cs, e.valueEq(a.F[i], b.F[i]))
		}
		return tb.And(cs...)
	case *ArrayV:
		b := y.(*ArrayV)
		var cs []*Term
		for i := range a.E {
			cs = append(cs, e.valueEq(a.E[i], b.E[i]))
		}
		return tb.And(cs...)
	case TimeV:
		return tb.Eq(a.NS, y.(TimeV).NS)
	case *Opaque:
		e.ooe("comparison of %v", a)
	}
	e.ooe("valueEq on %T", x)
	return nil
}

func (e *Exec) isNilValue(v Value) bool {
	switch a := v.(type) {
	case nil:
		return true
	case Ptr:
		return a.IsNil()
	case SliceV:
		return a.Arr == nil
	case *MapV:
		return a == nil
	case *ChanV:
		return a == nil
	case *FuncV:
		return a == nil
	case IfaceV:
		return a.T == nil
	}
	return false
}

func (e *Exec) strEq(a, b *StrV) *Term {
	tb := e.tb
	if a.Abs != nil || b.Abs != nil {
		if a.Abs != nil && b.Abs != nil && a.Abs.Kind == "fmtint" && b.Abs.Kind == "fmtint" && a.Abs.Layout == b.Abs.Layout && a.Abs.T.S == b.Abs.T.S {
			return tb.Eq(a.Abs.T, b.Abs.T)
		}
		if a.Abs != nil && b.Abs != nil && a.Abs.Kind == b.Abs.Kind && a.Abs.Layout == b.Abs.Layout {
			if g := layoutGranularity(a.Abs.Layout); g > 0 {
				return tb.Eq(e.floorDiv(a.Abs.T, g), e.floorDiv(b.Abs.T, g))
			}
		}
		e.ooe("comparison of an abstract (formatted) string")
	}
	if a.Opts != nil || b.Opts != nil {
		return e.poolEq(a, b)
	}
	if len(a.B) != len(b.B) {
		return tb.False
	}
	cs := make([]*Term, 0, len(a.B))
	for i := range a.B {
		c := tb.Eq(a.B[i], b.B[i])
		if c.IsFalse() {
			return tb.False
		}
		cs = append(cs, c)
	}
	return tb.And(cs...)
}

// poolEq: equality where at least one side is a pool string.
func (e *Exec) poolEq(a, b *StrV) *Term {
	tb := e.tb
	if a.Opts == nil {
		a, b = b, a
	}
	var cs []*Term
	if b.Opts == nil {
		for i, o := range a.Opts {
			c := e.strEq(e.strConst(o), b)
			if !c.IsFalse() {
				cs = append(cs, tb.And(tb.Eq(a.Sel, e.idxConst(a.Sel, i)), c))
			}
		}
		return tb.Or(cs...)
	}
	for i, o := range a.Opts {
		for j, p := range b.Opts {
			if o == p {
				cs = append(cs, tb.And(tb.Eq(a.Sel, e.idxConst(a.Sel, i)), tb.Eq(b.Sel, e.idxConst(b.Sel, j))))
			}
		}
	}
	return tb.Or(cs...)
}

// plainStr concretises a pool string (forking over its options).
func (e *Exec) plainStr(s *StrV) *StrV {
	if s.Abs != nil {
		e.ooe("byte-level use of an abstract (formatted) string")
	}
	if s.Opts == nil {
		return s
	}
	for i, o := range s.Opts {
		if i == len(s.Opts)-1 {
			e.assume(e.tb.Eq(s.Sel, e.idxConst(s.Sel, i)))
			return e.strConst(o)
		}
		if e.branch(e.tb.Eq(s.Sel, e.idxConst(s.Sel, i))) {
			return e.strConst(o)
		}
	}
	e.abort("infeasible", "pool string without options")
	return nil
}

func (e *Exec) concStr(s *StrV) (string, bool) {
	if s.Opts != nil {
		return "", false
	}
	b := make([]byte, len(s.B))
	for i, t := range s.B {
		if !t.Const {
			return "", false
		}
		b[i] = byte(t.I.Int64())
	}
	return string(b), true
}

// mustConcStr: string that must be concrete (forking on pool strings; symbolic
// bytes are concretised through the solver).
func (e *Exec) mustConcStr(s *StrV, why string) string {
	s = e.plainStr(s)
	b := make([]byte, len(s.B))
	for i, t := range s.B {
		if t.Const {
			b[i] = byte(t.I.Int64())
		} else {
			b[i] = byte(e.concretizeInt(t, why))
		}
	}
	return string(b)
}

// ---- conversions ----

func (e *Exec) convert(from, to types.Type, v Value) Value {
	tb := e.tb
	fu, tu := from.Underlying(), to.Underlying()
	fi, fok := basicInfo(fu)
	ti, tok := basicInfo(tu)
	switch {
	case fok && tok && fi.Int && ti.Int:
		return e.convInt(fi, ti, v.(*Term))
	case fok && tok && fi.Int && ti.Float:
		t := v.(*Term)
		if e.mode == "lia" {
			if t.Const {
				f, _ := new(big.Float).SetInt(t.I).Float64()
				return tb.FP(ti.W, f)
			}
			// lia mode: floats are incidental; a symbolic int->float conversion
			// yields an arbitrary float (over-approximation, listed as a stub).
			e.stubs["lia: symbolic int->float conversion = arbitrary float"] = true
			return e.newVar("havoc_i2f", SFP(ti.W))
		}
		return tb.IntToFP(ti.W, t, fi.Signed)
	case fok && tok && fi.Float && ti.Int:
		t := v.(*Term)
		if e.mode == "lia" {
			if t.Const {
				bf := new(big.Float).SetFloat64(t.F)
				bi, _ := bf.Int(nil)
				return e.intConstBig(ti, bi)
			}
			// Go leaves out-of-range / NaN conversions implementation-defined: wrap.
			e.stubs["lia: symbolic float->int conversion = arbitrary integer of the target type"] = true
			return e.newIntVar("havoc_f2i", ti)
		}
		return tb.FPToBV(ti.W, t, ti.Signed)
	case fok && tok && fi.Float && ti.Float:
		return tb.FPToFP(ti.W, v.(*Term))
	case fok && tok && fi.Str && ti.Str:
		return v
	case fok && tok && fi.Int && ti.Str:
		// string(rune)
		t := v.(*Term)
		c, ok := e.concInt(t, fi)
		if !ok {
			c = int64(e.concretizeInt(t, "string(rune)"))
		}
		return e.strConst(string(rune(c)))
	}
	// string <-> []byte / []rune
	if fok && fi.Str {
		if sl, ok := tu.(*types.Slice); ok {
			s := e.plainStr(v.(*StrV))
			ei, _ := basicInfo(sl.Elem())
			if ei.W == 8 {
				arr := &Loc{Comp: true, id: e.newLocID(), Typ: types.NewArray(sl.Elem(), int64(len(s.B)))}
				arr.Kids = make([]*Loc, len(s.B))
				for i, b := range s.B {
					arr.Kids[i] = &Loc{V: b, Typ: sl.Elem(), Par: arr, Idx: i}
				}
				return SliceV{Arr: arr, Len: len(s.B), Cap: len(s.B)}
			}
			// []rune
			str := e.mustConcStr(s, "[]rune(string)")
			rs := []rune(str)
			arr := e.newArrayLoc(sl.Elem(), len(rs))
			for i, r := range rs {
				arr.Kids[i].V = e.intConst(niInt32, int64(r))
			}
			return SliceV{Arr: arr, Len: len(rs), Cap: len(rs)}
		}
	}
	if tok && ti.Str {
		if sl, ok := fu.(*types.Slice); ok {
			s := v.(SliceV)
			ei, _ := basicInfo(sl.Elem())
			if ei.W == 8 {
				b := make([]*Term, s.Len)
				for i := 0; i < s.Len; i++ {
					b[i] = s.Arr.Kids[s.Off+i].V.(*Term)
				}
				return &StrV{B: b}
			}
			rs := make([]rune, s.Len)
			for i := 0; i < s.Len; i++ {
				t := s.Arr.Kids[s.Off+i].V.(*Term)
				c, ok := e.concInt(t, niInt32)
				if !ok {
					c = int64(e.concretizeInt(t, "string([]rune)"))
				}
				rs[i] = rune(c)
			}
			return e.strConst(string(rs))
		}
	}
	// pointer <-> unsafe.Pointer, and identical-underlying conversions
	switch v.(type) {
	case Ptr:
		return v
	}
	if types.Identical(fu, tu) {
		return v
	}
	// slice -> array (Go 1.20)
	if at, ok := tu.(*types.Array); ok {
		if s, ok := v.(SliceV); ok {
			n := int(at.Len())
			if s.Len < n {
				e.goPanicf("cannot convert slice with length %d to array of length %d", s.Len, n)
			}
			a := &ArrayV{E: make([]Value, n)}
			for i := 0; i < n; i++ {
				a.E[i] = e.load(s.Arr.Kids[s.Off+i])
			}
			return a
		}
	}
	e.ooe("convert %v -> %v", from, to)
	return nil
}

func (e *Exec) convInt(fi, ti numInfo, t *Term) *Term {
	tb := e.tb
	if e.mode == "lia" {
		return tb.IWrap(t, ti.W, ti.Signed)
	}
	if ti.W == fi.W {
		return t
	}
	if ti.W < fi.W {
		return tb.Extract(ti.W-1, 0, t)
	}
	if fi.Signed {
		return tb.SExt(ti.W, t)
	}
	return tb.ZExt(ti.W, t)
}

func (e *Exec) typeString(t types.Type) string {
	return types.TypeString(t, nil)
}

var _ = fmt.Sprintf
