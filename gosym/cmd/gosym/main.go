package main

import (
	"os"

	"gosym"
)

func main() { os.Exit(gosym.Main(os.Args[1:])) }
