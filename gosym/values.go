package gosym

import (
	"fmt"
	"go/types"

	"golang.org/x/tools/go/ssa"
)

// Value is one of:
//   *Term            bool / integer / float scalars
//   *StrV            strings
//   Ptr              pointers (incl. unsafe.Pointer)
//   SliceV           slices
//   *MapV            maps (nil pointer = nil map)
//   *ChanV           channels
//   IfaceV           interfaces
//   *FuncV           functions / closures (nil pointer = nil func)
//   *StructV         struct values (immutable by convention)
//   *ArrayV          array values (immutable by convention)
//   TupleV           multiple results
//   TimeV            abstract time.Time
//   *Opaque          value outside the encoding (use aborts the path)
type Value interface{}

type StrV struct {
	B []*Term // bytes (sort: byte sort of the mode)
	// pool string: exactly one of Opts is selected by Sel (an integer-sorted term
	// in 0..len(Opts)-1). When Opts != nil, B is unused.
	Sel  *Term
	Opts []string
	// abstract string (e.g. a formatted symbolic time); only equality with a
	// string of the same kind and parsing back are modelled.
	Abs *absStr
}

type Loc struct {
	V      Value  // leaf content
	Kids   []*Loc // struct fields / array elements
	Comp   bool   // composite (Kids valid)
	Typ    types.Type
	Global *ssa.Global
	Frozen bool // belongs to package-level state computed by init (mutation is undo-logged)
	Par    *Loc // enclosing array (for elements of backing arrays), used by unsafe.String/Slice
	Idx    int
	id     int
}

type Ptr struct {
	L *Loc
	// symbolic element pointer: &Arr.Kids[Idx]
	Arr *Loc
	Idx *Term
	Off int // element offset added to Idx (slice offset)
	N   int // number of addressable elements from Off
	// pointer to a function value (rare) or unsafe string data
	Tag string
}

func (p Ptr) IsNil() bool { return p.L == nil && p.Arr == nil }

type SliceV struct {
	Arr           *Loc // composite array loc; nil => nil slice
	Off, Len, Cap int
}

type MapV struct {
	Keys []Value
	Vals []Value
	Typ  *types.Map
}

type ChanV struct {
	Buf    []Value
	Cap    int
	Closed bool
}

type IfaceV struct {
	T types.Type // dynamic type; nil => nil interface
	V Value
}

type FuncV struct {
	Fn      *ssa.Function
	Free    []Value
	Builtin *ssa.Builtin
	Native  func(e *Exec, args []Value) Value // engine-provided callable
	Name    string
}

type StructV struct{ F []Value }
type ArrayV struct{ E []Value }
type TupleV []Value

// TimeV: abstract instant, nanoseconds since the Unix epoch as an Int term.
type TimeV struct {
	NS *Term
	// OffSec: the fixed offset (seconds east of UTC) of the value's location; 0 = UTC.
	// Only constant offsets arise (from parsing a literal that carries one). It decides
	// the wall-clock fields Format shows, never comparisons or arithmetic on instants.
	OffSec int64
}

type Opaque struct {
	What string
	Data interface{} // engine payload carried by the opaque value (json model)
}

func (o *Opaque) String() string { return "opaque(" + o.What + ")" }

// ---- type helpers ----

type numInfo struct {
	W      int
	Signed bool
	Float  bool
	Int    bool
	Bool   bool
	Str    bool
}

func basicInfo(t types.Type) (numInfo, bool) {
	b, ok := t.Underlying().(*types.Basic)
	if !ok {
		return numInfo{}, false
	}
	switch b.Kind() {
	case types.Bool, types.UntypedBool:
		return numInfo{Bool: true}, true
	case types.Int8:
		return numInfo{W: 8, Signed: true, Int: true}, true
	case types.Int16:
		return numInfo{W: 16, Signed: true, Int: true}, true
	case types.Int32, types.UntypedRune:
		return numInfo{W: 32, Signed: true, Int: true}, true
	case types.Int64, types.Int, types.UntypedInt:
		return numInfo{W: 64, Signed: true, Int: true}, true
	case types.Uint8:
		return numInfo{W: 8, Int: true}, true
	case types.Uint16:
		return numInfo{W: 16, Int: true}, true
	case types.Uint32:
		return numInfo{W: 32, Int: true}, true
	case types.Uint64, types.Uint, types.Uintptr:
		return numInfo{W: 64, Int: true}, true
	case types.Float32:
		return numInfo{W: 32, Float: true}, true
	case types.Float64, types.UntypedFloat:
		return numInfo{W: 64, Float: true}, true
	case types.String, types.UntypedString:
		return numInfo{Str: true}, true
	}
	return numInfo{}, false
}

func isTimeType(t types.Type) bool {
	n, ok := types.Unalias(t).(*types.Named)
	if !ok {
		return false
	}
	o := n.Obj()
	return o.Pkg() != nil && o.Pkg().Path() == "time" && o.Name() == "Time"
}

func namedIs(t types.Type, pkg, name string) bool {
	n, ok := types.Unalias(t).(*types.Named)
	if !ok {
		return false
	}
	o := n.Obj()
	return o.Pkg() != nil && o.Pkg().Path() == pkg && o.Name() == name
}

func (e *Exec) newLocID() int { e.locSeq++; return e.locSeq }

// newLoc allocates zero-initialised storage for a value of type t.
func (e *Exec) newLoc(t types.Type) *Loc {
	l := &Loc{Typ: t, id: e.newLocID()}
	if isTimeType(t) {
		l.V = e.zeroTime()
		return l
	}
	switch u := t.Underlying().(type) {
	case *types.Struct:
		l.Comp = true
		l.Kids = make([]*Loc, u.NumFields())
		for i := range l.Kids {
			l.Kids[i] = e.newLoc(u.Field(i).Type())
		}
	case *types.Array:
		l.Comp = true
		n := int(u.Len())
		l.Kids = make([]*Loc, n)
		for i := range l.Kids {
			l.Kids[i] = e.newLoc(u.Elem())
		}
	default:
		l.V = e.zero(t)
	}
	return l
}

// newArrayLoc allocates a backing array of n elements of type elem.
func (e *Exec) newArrayLoc(elem types.Type, n int) *Loc {
	l := &Loc{Comp: true, id: e.newLocID(), Typ: types.NewArray(elem, int64(n))}
	l.Kids = make([]*Loc, n)
	// fast path for scalar elements: share the zero value
	if _, comp := elem.Underlying().(*types.Struct); !comp {
		if _, arr := elem.Underlying().(*types.Array); !arr && !isTimeType(elem) {
			z := e.zero(elem)
			for i := range l.Kids {
				l.Kids[i] = &Loc{V: z, Typ: elem, Par: l, Idx: i}
			}
			return l
		}
	}
	for i := range l.Kids {
		l.Kids[i] = e.newLoc(elem)
		l.Kids[i].Par, l.Kids[i].Idx = l, i
	}
	return l
}

func (e *Exec) zero(t types.Type) Value {
	if isTimeType(t) {
		return e.zeroTime()
	}
	switch u := t.Underlying().(type) {
	case *types.Basic:
		ni, _ := basicInfo(u)
		switch {
		case ni.Bool:
			return e.tb.False
		case ni.Int:
			return e.intConst(ni, 0)
		case ni.Float:
			return e.tb.FP(ni.W, 0)
		case ni.Str:
			return &StrV{}
		}
		if u.Kind() == types.UnsafePointer {
			return Ptr{}
		}
		if u.Kind() == types.UntypedNil || u.Kind() == types.Invalid {
			return nil // (unused range key/value slots have invalid type)
		}
		if u.Kind() == types.Complex128 || u.Kind() == types.Complex64 {
			return &Opaque{What: "complex"}
		}
		panic(fmt.Sprintf("zero: basic %v", u))
	case *types.Pointer:
		return Ptr{}
	case *types.Slice:
		return SliceV{}
	case *types.Map:
		return (*MapV)(nil)
	case *types.Chan:
		return (*ChanV)(nil)
	case *types.Signature:
		return (*FuncV)(nil)
	case *types.Interface:
		return IfaceV{}
	case *types.Struct:
		s := &StructV{F: make([]Value, u.NumFields())}
		for i := range s.F {
			s.F[i] = e.zero(u.Field(i).Type())
		}
		return s
	case *types.Array:
		n := int(u.Len())
		a := &ArrayV{E: make([]Value, n)}
		if n > 0 {
			z := e.zero(u.Elem())
			for i := range a.E {
				a.E[i] = z // immutable values may be shared
			}
		}
		return a
	case *types.Tuple:
		tv := make(TupleV, u.Len())
		for i := range tv {
			tv[i] = e.zero(u.At(i).Type())
		}
		return tv
	}
	panic(fmt.Sprintf("zero: unsupported type %v", t))
}

// load reads the (possibly composite) content of a location as a value.
func (e *Exec) load(l *Loc) Value {
	if !l.Comp {
		return l.V
	}
	if _, ok := l.Typ.Underlying().(*types.Struct); ok {
		s := &StructV{F: make([]Value, len(l.Kids))}
		for i, k := range l.Kids {
			s.F[i] = e.load(k)
		}
		return s
	}
	a := &ArrayV{E: make([]Value, len(l.Kids))}
	for i, k := range l.Kids {
		a.E[i] = e.load(k)
	}
	return a
}

func (e *Exec) store(l *Loc, v Value) {
	if l.Frozen {
		e.undo = append(e.undo, undoRec{l, l.V, l.Kids})
	}
	if !l.Comp {
		l.V = v
		return
	}
	switch x := v.(type) {
	case *StructV:
		for i, k := range l.Kids {
			e.store(k, x.F[i])
		}
	case *ArrayV:
		for i, k := range l.Kids {
			e.store(k, x.E[i])
		}
	default:
		panic(fmt.Sprintf("store: composite loc of %v gets %T", l.Typ, v))
	}
}

type undoRec struct {
	l    *Loc
	v    Value
	kids []*Loc
}
