package gosym

// Lifting of operators over small ite-trees whose leaves are constants.
// Values selected from a finite pool (verif.OneOf*, ite chains over concrete
// cells) stay "trees of constants" through arithmetic, so comparisons with
// constants fold to conditions on the selectors instead of growing terms.

const maxLiftLeaves = 16

func constLeaves(t *Term, budget int) int {
	if t.Const {
		return 1
	}
	if t.Op != "ite" || budget <= 0 {
		return 1 << 20
	}
	a := constLeaves(t.Args[1], budget-1)
	if a > maxLiftLeaves {
		return a
	}
	return a + constLeaves(t.Args[2], budget-1)
}

func isConstTree(t *Term) bool {
	return !t.Const && t.Op == "ite" && constLeaves(t, 6) <= maxLiftLeaves
}

// lift1 applies f to every leaf of the const tree t.
func (tb *TB) lift1(t *Term, f func(*Term) *Term) *Term {
	if t.Const {
		return f(t)
	}
	return tb.Ite(t.Args[0], tb.lift1(t.Args[1], f), tb.lift1(t.Args[2], f))
}

// lift2 tries to distribute a binary constructor over const trees. ok=false
// means the operands are not (const, tree) / (tree, const) / small (tree, tree).
func (tb *TB) lift2(a, b *Term, f func(x, y *Term) *Term) (*Term, bool) {
	switch {
	case a.Const && isConstTree(b):
		return tb.lift1(b, func(y *Term) *Term { return f(a, y) }), true
	case b.Const && isConstTree(a):
		return tb.lift1(a, func(x *Term) *Term { return f(x, b) }), true
	case isConstTree(a) && isConstTree(b) && constLeaves(a, 6)*constLeaves(b, 6) <= maxLiftLeaves:
		return tb.lift1(a, func(x *Term) *Term {
			return tb.lift1(b, func(y *Term) *Term { return f(x, y) })
		}), true
	}
	return nil, false
}

// elemArray returns the backing array and element offset of a pointer to an
// array element (as produced by &s[i]).
func (e *Exec) elemArray(p Ptr) (*Loc, int) {
	if p.L == nil || p.L.Par == nil {
		return nil, 0
	}
	// the element may have been re-homed; verify
	if p.L.Idx < len(p.L.Par.Kids) && p.L.Par.Kids[p.L.Idx] == p.L {
		return p.L.Par, p.L.Idx
	}
	for i, k := range p.L.Par.Kids {
		if k == p.L {
			return p.L.Par, i
		}
	}
	return nil, 0
}
