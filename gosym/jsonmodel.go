package gosym

import (
	"encoding/json"
	"go/types"
	"reflect"
	"strings"

	"golang.org/x/tools/go/ssa"
)

// encoding/json model. json.Marshal(v) returns an opaque one-element []byte whose
// backing array is tagged with a deep snapshot of v; json.Unmarshal of such bytes into a
// pointer rebuilds the target field by field following encoding/json's rules for exported
// fields, `json:"name"` tags and `json:"-"` (omitempty is irrelevant for zero-valued
// targets, which is what every encoded call site passes). Bytes that were not produced by
// Marshal in the same path are rejected as malformed when they are concrete and not valid
// JSON; anything else is out of the encoding. The bytes themselves are never inspected:
// any byte-level use of a marshalled buffer aborts the path as out-of-encoding.

type jsonBlob struct {
	T types.Type
	V Value
}

func jsonFieldName(f *types.Var, tag string) (string, bool) {
	if !f.Exported() {
		return "", false
	}
	name := f.Name()
	if t, ok := reflect.StructTag(tag).Lookup("json"); ok {
		if t == "-" {
			return "", false
		}
		if i := strings.IndexByte(t, ','); i >= 0 {
			t = t[:i]
		}
		if t != "" {
			name = t
		}
	}
	return name, true
}

func isByteSlice(t types.Type) bool {
	s, ok := t.Underlying().(*types.Slice)
	if !ok {
		return false
	}
	b, ok := s.Elem().Underlying().(*types.Basic)
	return ok && b.Kind() == types.Uint8
}

func (e *Exec) hasJSONMethods(t types.Type) bool {
	if isTimeType(t) || namedIs(t, "encoding/json", "RawMessage") {
		return false
	}
	for _, tt := range []types.Type{t, types.NewPointer(t)} {
		ms := e.W.Prog.MethodSets.MethodSet(tt)
		for i := 0; i < ms.Len(); i++ {
			switch ms.At(i).Obj().Name() {
			case "MarshalJSON", "UnmarshalJSON", "MarshalText", "UnmarshalText":
				return true
			}
		}
	}
	return false
}

// jsonConvert deep-copies v (of type srcT) into a fresh value of type dstT the way a
// Marshal/Unmarshal round trip would. cur is the target's current value (kept for fields
// the source does not carry).
func (e *Exec) jsonConvert(srcT types.Type, v Value, dstT types.Type, cur Value) Value {
	if isTimeType(dstT) {
		if !isTimeType(srcT) {
			e.ooe("json model: %v into time.Time", srcT)
		}
		return v
	}
	// JSON has no pointers: a marshalled *T is T (or null), and T unmarshals into *T
	if sp, ok := srcT.Underlying().(*types.Pointer); ok {
		if _, dp := dstT.Underlying().(*types.Pointer); !dp {
			p := v.(Ptr)
			if p.IsNil() {
				return cur // JSON null leaves a non-pointer target unchanged
			}
			if p.L == nil {
				e.ooe("json model: element pointer")
			}
			return e.jsonConvert(sp.Elem(), e.load(p.L), dstT, cur)
		}
	} else if dp, ok := dstT.Underlying().(*types.Pointer); ok {
		if _, isIface := srcT.Underlying().(*types.Interface); !isIface {
			nl := e.newLoc(dp.Elem())
			e.store(nl, e.jsonConvert(srcT, v, dp.Elem(), e.load(nl)))
			return Ptr{L: nl}
		}
	}
	if _, ok := dstT.(*types.Named); ok && e.hasJSONMethods(dstT) {
		e.ooe("json model: type %v has custom (un)marshalling methods", dstT)
	}
	switch d := dstT.Underlying().(type) {
	case *types.Basic:
		if _, ok := srcT.Underlying().(*types.Basic); !ok {
			e.ooe("json model: %v into %v", srcT, dstT)
		}
		si, _ := basicInfo(srcT.Underlying().(*types.Basic))
		di, _ := basicInfo(d)
		if si != di {
			e.ooe("json model: %v into %v (different basic kinds)", srcT, dstT)
		}
		return v
	case *types.Pointer:
		sp, ok := srcT.Underlying().(*types.Pointer)
		if !ok {
			e.ooe("json model: %v into %v", srcT, dstT)
		}
		p := v.(Ptr)
		if p.IsNil() {
			return Ptr{}
		}
		if p.L == nil {
			e.ooe("json model: element pointer")
		}
		nl := e.newLoc(d.Elem())
		e.store(nl, e.jsonConvert(sp.Elem(), e.load(p.L), d.Elem(), e.load(nl)))
		return Ptr{L: nl}
	case *types.Slice:
		ss, ok := srcT.Underlying().(*types.Slice)
		if !ok {
			e.ooe("json model: %v into %v", srcT, dstT)
		}
		s := v.(SliceV)
		if s.Arr == nil {
			return SliceV{}
		}
		if isByteSlice(dstT) && e.blobOf(s) != nil {
			return s // marshalled bytes travel by reference (immutable)
		}
		na := e.newArrayLoc(d.Elem(), s.Len)
		for i := 0; i < s.Len; i++ {
			e.store(na.Kids[i], e.jsonConvert(ss.Elem(), e.load(s.Arr.Kids[s.Off+i]), d.Elem(), e.load(na.Kids[i])))
		}
		return SliceV{Arr: na, Off: 0, Len: s.Len, Cap: s.Len}
	case *types.Map:
		sm, ok := srcT.Underlying().(*types.Map)
		if !ok {
			e.ooe("json model: %v into %v", srcT, dstT)
		}
		m := v.(*MapV)
		if m == nil {
			return (*MapV)(nil)
		}
		nm := &MapV{Typ: d}
		for i := range m.Keys {
			nm.Keys = append(nm.Keys, e.jsonConvert(sm.Key(), m.Keys[i], d.Key(), e.zero(d.Key())))
			nm.Vals = append(nm.Vals, e.jsonConvert(sm.Elem(), m.Vals[i], d.Elem(), e.zero(d.Elem())))
		}
		return nm
	case *types.Struct:
		ss, ok := srcT.Underlying().(*types.Struct)
		if !ok {
			e.ooe("json model: %v into %v", srcT, dstT)
		}
		sv := v.(*StructV)
		out := &StructV{F: make([]Value, d.NumFields())}
		cs, _ := cur.(*StructV)
		for i := 0; i < d.NumFields(); i++ {
			if cs != nil {
				out.F[i] = cs.F[i]
			} else {
				out.F[i] = e.zero(d.Field(i).Type())
			}
			df := d.Field(i)
			if df.Anonymous() {
				e.ooe("json model: embedded field %s in %v", df.Name(), dstT)
			}
			name, ok := jsonFieldName(df, d.Tag(i))
			if !ok {
				continue
			}
			for j := 0; j < ss.NumFields(); j++ {
				sn, ok := jsonFieldName(ss.Field(j), ss.Tag(j))
				if ok && (sn == name || strings.EqualFold(sn, name)) {
					out.F[i] = e.jsonConvert(ss.Field(j).Type(), sv.F[j], df.Type(), out.F[i])
					break
				}
			}
		}
		return out
	case *types.Array:
		sa, ok := srcT.Underlying().(*types.Array)
		if !ok || sa.Len() != d.Len() {
			e.ooe("json model: %v into %v", srcT, dstT)
		}
		av := v.(*ArrayV)
		out := &ArrayV{E: make([]Value, len(av.E))}
		for i := range av.E {
			out.E[i] = e.jsonConvert(sa.Elem(), av.E[i], d.Elem(), e.zero(d.Elem()))
		}
		return out
	case *types.Interface:
		iv, ok := v.(IfaceV)
		if !ok {
			e.ooe("json model: concrete %v into interface %v", srcT, dstT)
		}
		if iv.T == nil {
			return IfaceV{}
		}
		if e.marshalKind == "msgpack" {
			// msgpack keeps the dynamic value (the harnesses use the kinds the decoder
			// hands back unchanged: string, int64, float64, bool, []interface{}, map[string]interface{})
			return IfaceV{T: iv.T, V: e.jsonConvert(iv.T, iv.V, iv.T, nil)}
		}
		e.ooe("json model: non-nil interface value of dynamic type %v", iv.T)
	}
	e.ooe("json model: unsupported target type %v", dstT)
	return nil
}

// blobOf: the snapshot carried by a marshalled buffer (the tag lives in the buffer's single
// opaque byte, so copies made with append/copy/bytes.Buffer keep it); nil for other bytes.
func (e *Exec) blobOf(s SliceV) *jsonBlob {
	if s.Arr == nil || s.Len != 1 {
		return nil
	}
	if o, ok := s.Arr.Kids[s.Off].V.(*Opaque); ok {
		if b, ok := o.Data.(*jsonBlob); ok {
			return b
		}
	}
	return nil
}

func (e *Exec) jsonMarshal(v Value) SliceV {
	iv, ok := v.(IfaceV)
	if !ok || iv.T == nil {
		e.ooe("json.Marshal of a nil interface")
	}
	snap := e.jsonConvert(iv.T, iv.V, iv.T, nil)
	byteT := types.Typ[types.Uint8]
	arr := e.newArrayLoc(byteT, 1)
	arr.Kids[0].V = &Opaque{What: "bytes produced by json.Marshal (json model)", Data: &jsonBlob{T: iv.T, V: snap}}
	e.stubs["encoding/json: Marshal = deep snapshot carried by an opaque buffer, Unmarshal/Decode = field-by-field rebuild by JSON name (exported fields, json tags, json:\"-\"); bytes never inspected; non-JSON concrete bytes give a decode error"] = true
	return SliceV{Arr: arr, Off: 0, Len: 1, Cap: 1}
}

// jsonUnmarshal returns the error value (nil error = success).
func (e *Exec) jsonUnmarshal(data SliceV, target Value) Value {
	errT := types.Universe.Lookup("error").Type()
	blob := e.blobOf(data)
	if blob == nil {
		// concrete, non-marshalled bytes: malformed input is an error, anything else is
		// outside the model
		if data.Arr == nil || data.Len == 0 {
			return e.errorValue("unexpected end of JSON input")
		}
		bs := make([]byte, 0, data.Len)
		for i := 0; i < data.Len; i++ {
			t, ok := e.load(data.Arr.Kids[data.Off+i]).(*Term)
			if !ok {
				e.ooe("json.Unmarshal of non-scalar bytes")
			}
			c, ok := e.concInt(t, niByte)
			if !ok {
				e.ooe("json.Unmarshal of symbolic bytes")
			}
			bs = append(bs, byte(c))
		}
		if !json.Valid(bs) {
			return e.errorValue("invalid character in JSON input")
		}
		e.ooe("json.Unmarshal of concrete JSON text (only buffers produced by json.Marshal are modelled)")
	}
	iv, ok := target.(IfaceV)
	if !ok || iv.T == nil {
		return e.errorValue("json: Unmarshal(nil)")
	}
	pt, ok := iv.T.Underlying().(*types.Pointer)
	if !ok {
		return e.errorValue("json: Unmarshal(non-pointer)")
	}
	p := iv.V.(Ptr)
	if p.IsNil() || p.L == nil {
		return e.errorValue("json: Unmarshal(nil pointer)")
	}
	e.store(p.L, e.jsonConvert(blob.T, blob.V, pt.Elem(), e.load(p.L)))
	return e.zero(errT)
}

// ---- msgpack (github.com/Basekick-Labs/msgpack/v6) on the same machinery ----
// Marshal = deep snapshot in an opaque buffer; Unmarshal into a pointer whose element type
// is identical to the marshalled value's type rebuilds it, any other target is a decode
// error (the real decoder rejects an array into a map target and vice versa - the only
// mismatches the encoded call sites rely on). Interface-typed values keep their dynamic
// value. Raw msgpack bytes are out of the encoding.

func (e *Exec) msgpackMarshal(v Value) SliceV {
	e.marshalKind = "msgpack"
	defer func() { e.marshalKind = "" }()
	iv, ok := v.(IfaceV)
	if !ok || iv.T == nil {
		e.ooe("msgpack.Marshal of a nil interface")
	}
	snap := e.jsonConvert(iv.T, iv.V, iv.T, nil)
	arr := e.newArrayLoc(types.Typ[types.Uint8], 1)
	arr.Kids[0].V = &Opaque{What: "bytes produced by msgpack.Marshal (msgpack model)", Data: &jsonBlob{T: iv.T, V: snap}}
	e.stubs["msgpack: Marshal = deep snapshot carried by an opaque buffer; Unmarshal rebuilds it into a target of the identical type and fails for any other target type; bytes never inspected"] = true
	return SliceV{Arr: arr, Off: 0, Len: 1, Cap: 1}
}

func (e *Exec) msgpackUnmarshal(data SliceV, target Value) Value {
	e.marshalKind = "msgpack"
	defer func() { e.marshalKind = "" }()
	errT := types.Universe.Lookup("error").Type()
	blob := e.blobOf(data)
	if blob == nil {
		e.ooe("msgpack.Unmarshal of bytes not produced by msgpack.Marshal in this harness")
	}
	iv, ok := target.(IfaceV)
	if !ok || iv.T == nil {
		return e.errorValue("msgpack: Decode(nil)")
	}
	pt, ok := iv.T.Underlying().(*types.Pointer)
	if !ok {
		return e.errorValue("msgpack: Decode(non-pointer)")
	}
	p := iv.V.(Ptr)
	if p.IsNil() || p.L == nil {
		return e.errorValue("msgpack: Decode(nil pointer)")
	}
	if !types.Identical(blob.T, pt.Elem()) {
		return e.errorValue("msgpack: invalid code for decoding into the target type")
	}
	e.store(p.L, e.jsonConvert(blob.T, blob.V, pt.Elem(), e.load(p.L)))
	return e.zero(errT)
}

func init() {
	extraIntrinsics = append(extraIntrinsics, func(w *World) {
		errT := types.Universe.Lookup("error").Type()
		w.reg("github.com/Basekick-Labs/msgpack/v6.Marshal", func(e *Exec, fn *ssa.Function, a []Value) Value {
			return TupleV{e.msgpackMarshal(a[0]), e.zero(errT)}
		})
		w.reg("github.com/Basekick-Labs/msgpack/v6.Unmarshal", func(e *Exec, fn *ssa.Function, a []Value) Value {
			return e.msgpackUnmarshal(a[0].(SliceV), a[1])
		})
		w.reg("encoding/json.Marshal", func(e *Exec, fn *ssa.Function, a []Value) Value {
			return TupleV{e.jsonMarshal(a[0]), e.zero(errT)}
		})
		w.reg("encoding/json.MarshalIndent", func(e *Exec, fn *ssa.Function, a []Value) Value {
			return TupleV{e.jsonMarshal(a[0]), e.zero(errT)}
		})
		w.reg("encoding/json.Unmarshal", func(e *Exec, fn *ssa.Function, a []Value) Value {
			return e.jsonUnmarshal(a[0].(SliceV), a[1])
		})
		// Decoder/Encoder: the reader/writer must be a harness type. A reader hands its
		// buffered marshalled bytes over through a method VerifJSONBlob() []byte; a writer
		// receives the opaque buffer through its ordinary Write method.
		w.reg("encoding/json.NewDecoder", func(e *Exec, fn *ssa.Function, a []Value) Value {
			l := &Loc{V: a[0], Typ: fn.Signature.Results().At(0).Type().(*types.Pointer).Elem(), id: e.newLocID()}
			return Ptr{L: l}
		})
		w.reg("(*encoding/json.Decoder).Decode", func(e *Exec, fn *ssa.Function, a []Value) Value {
			r, ok := a[0].(Ptr).L.V.(IfaceV)
			if !ok || r.T == nil {
				e.ooe("json.Decoder over a nil reader")
			}
			m := e.findMethod(r.T, "VerifJSONBlob")
			if m == nil {
				e.ooe("json.Decoder over a reader of type %v without VerifJSONBlob() (json model)", r.T)
			}
			data := e.callFunc(&FuncV{Fn: m, Name: m.String()}, []Value{r.V}, "json-model")
			return e.jsonUnmarshal(data.(SliceV), a[1])
		})
		w.reg("encoding/json.NewEncoder", func(e *Exec, fn *ssa.Function, a []Value) Value {
			l := &Loc{V: a[0], Typ: fn.Signature.Results().At(0).Type().(*types.Pointer).Elem(), id: e.newLocID()}
			return Ptr{L: l}
		})
		w.reg("(*encoding/json.Encoder).Encode", func(e *Exec, fn *ssa.Function, a []Value) Value {
			wv, ok := a[0].(Ptr).L.V.(IfaceV)
			if !ok || wv.T == nil {
				e.ooe("json.Encoder over a nil writer")
			}
			m := e.findMethod(wv.T, "Write")
			if m == nil {
				e.ooe("json.Encoder: writer of type %v has no Write", wv.T)
			}
			res := e.callFunc(&FuncV{Fn: m, Name: m.String()}, []Value{wv.V, e.jsonMarshal(a[1])}, "json-model")
			return res.(TupleV)[1]
		})
		w.reg("encoding/json.Valid", func(e *Exec, fn *ssa.Function, a []Value) Value {
			s := a[0].(SliceV)
			if e.blobOf(s) != nil {
				return e.tb.True
			}
			e.ooe("json.Valid of bytes not produced by json.Marshal")
			return nil
		})
	})
}
