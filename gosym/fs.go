package gosym

// In-state file-system model. Paths are concrete strings, contents are byte
// terms. Every mutating operation is a numbered step at which a crash or an
// injected I/O fault may be chosen (verif.FSCrashPoints / verif.FSFaults).

import (
	"go/types"
	"sort"
	"strings"

	"golang.org/x/tools/go/ssa"
)

type fsFile struct {
	data  []*Term
	isDir bool
}

type fsState struct {
	files     map[string]*fsFile
	open      map[*Loc]*openFile
	steps     int
	crashOn   bool
	faultsOn  bool
	partialOn bool
	tmpSeq    int
	crashed   bool
	log       []string
}

type openFile struct {
	path   string
	pos    int
	closed bool
	write  bool
	app    bool
	read   bool
}

func (e *Exec) fsm() *fsState {
	if e.fs == nil {
		e.fs = &fsState{files: map[string]*fsFile{"/": {isDir: true}}, open: map[*Loc]*openFile{}}
	}
	return e.fs
}

func cleanPath(p string) string {
	if p == "" {
		return "."
	}
	// minimal lexical clean for absolute/relative paths
	parts := strings.Split(p, "/")
	var out []string
	for _, s := range parts {
		switch s {
		case "", ".":
		case "..":
			if len(out) > 0 && out[len(out)-1] != ".." {
				out = out[:len(out)-1]
			} else if !strings.HasPrefix(p, "/") {
				out = append(out, "..")
			}
		default:
			out = append(out, s)
		}
	}
	r := strings.Join(out, "/")
	if strings.HasPrefix(p, "/") {
		return "/" + r
	}
	if r == "" {
		return "."
	}
	return r
}

func parentDir(p string) string {
	i := strings.LastIndex(p, "/")
	if i <= 0 {
		if strings.HasPrefix(p, "/") {
			return "/"
		}
		return "."
	}
	return p[:i]
}

func (e *Exec) globalValue(pkgPath, name string) Value {
	for _, p := range e.W.Prog.AllPackages() {
		if p.Pkg.Path() == pkgPath {
			if g, ok := p.Members[name].(*ssa.Global); ok {
				return e.load(e.globalLoc(g))
			}
		}
	}
	e.ooe("global %s.%s not found", pkgPath, name)
	return nil
}

func (e *Exec) errT() types.Type { return types.Universe.Lookup("error").Type() }

// pathError builds *fs.PathError{Op, Path, Err}.
func (e *Exec) pathError(op, path string, inner Value) Value {
	t := e.lookupType("io/fs", "PathError")
	if t == nil {
		return e.errorValue(op + " " + path + ": error")
	}
	l := e.newLoc(t)
	l.Kids[0].V = e.strConst(op)
	l.Kids[1].V = e.strConst(path)
	l.Kids[2].V = inner
	return IfaceV{T: types.NewPointer(t), V: Ptr{L: l}}
}

func (e *Exec) errNotExist(op, path string) Value {
	return e.pathError(op, path, e.globalValue("io/fs", "ErrNotExist"))
}
func (e *Exec) errExist(op, path string) Value {
	return e.pathError(op, path, e.globalValue("io/fs", "ErrExist"))
}
func (e *Exec) errIO(op, path string) Value {
	return e.pathError(op, path, e.errorValue("input/output error (injected fault)"))
}

// fsStep is called before every mutating operation: crash point and fault choice.
// It returns true if the operation must fail (injected fault).
func (e *Exec) fsStep(op, path string) bool {
	fs := e.fsm()
	fs.steps++
	fs.log = append(fs.log, op+" "+path)
	if fs.crashOn {
		if e.choose(2, "crash-before:"+op) == 1 {
			fs.crashed = true
			panic(&goPanic{V: IfaceV{T: types.Typ[types.String], V: e.strConst("verif: crash")}, Msg: "verif: crash", Pos: "fs:" + op})
		}
	}
	if fs.faultsOn {
		if e.choose(2, "fault:"+op) == 1 {
			return true
		}
	}
	return false
}

func (e *Exec) newOSFile(path string, of *openFile) Value {
	t := e.lookupType("os", "File")
	l := e.newLoc(t)
	e.fsm().open[l] = of
	return Ptr{L: l}
}

func (e *Exec) openOf(v Value) *openFile {
	p, ok := v.(Ptr)
	if !ok || p.L == nil {
		e.goPanicf("invalid memory address or nil pointer dereference (*os.File)")
	}
	of := e.fsm().open[p.L]
	if of == nil {
		e.ooe("*os.File not created through the file-system model")
	}
	return of
}

func (e *Exec) dirExists(p string) bool {
	f, ok := e.fsm().files[p]
	return ok && f.isDir
}

const (
	oRDONLY = 0x0
	oWRONLY = 0x1
	oRDWR   = 0x2
	oAPPEND = 0x400
	oCREATE = 0x40
	oEXCL   = 0x80
	oTRUNC  = 0x200
)

func (e *Exec) fsOpen(path string, flag int) (Value, Value) {
	fs := e.fsm()
	path = cleanPath(path)
	f, ok := fs.files[path]
	mut := flag&(oCREATE|oTRUNC) != 0
	if mut {
		if e.fsStep("open", path) {
			return Ptr{}, e.errIO("open", path)
		}
	}
	if ok && flag&oEXCL != 0 && flag&oCREATE != 0 {
		return Ptr{}, e.errExist("open", path)
	}
	if !ok {
		if flag&oCREATE == 0 {
			return Ptr{}, e.errNotExist("open", path)
		}
		if !e.dirExists(parentDir(path)) {
			return Ptr{}, e.errNotExist("open", path)
		}
		f = &fsFile{}
		fs.files[path] = f
	}
	if f.isDir && flag&(oWRONLY|oRDWR) != 0 {
		return Ptr{}, e.pathError("open", path, e.errorValue("is a directory"))
	}
	if flag&oTRUNC != 0 {
		f.data = nil
	}
	of := &openFile{path: path, write: flag&(oWRONLY|oRDWR) != 0, read: flag&oWRONLY == 0, app: flag&oAPPEND != 0}
	return e.newOSFile(path, of), e.zero(e.errT())
}

func (e *Exec) fileInfo(path string, f *fsFile) Value {
	t := e.lookupType("os", "fileStat")
	if t == nil {
		e.ooe("os.fileStat not loaded")
	}
	l := e.newLoc(t)
	st := t.Underlying().(*types.Struct)
	base := path
	if i := strings.LastIndex(path, "/"); i >= 0 {
		base = path[i+1:]
	}
	for i := 0; i < st.NumFields(); i++ {
		switch st.Field(i).Name() {
		case "name":
			l.Kids[i].V = e.strConst(base)
		case "size":
			l.Kids[i].V = e.intConst(niInt, int64(len(f.data)))
		case "mode":
			m := int64(0o644)
			if f.isDir {
				m = int64(1<<31 | 0o755)
			}
			l.Kids[i].V = e.intConst(numInfo{W: 32, Int: true}, m)
		}
	}
	fit := e.lookupType("io/fs", "FileInfo")
	_ = fit
	return IfaceV{T: types.NewPointer(t), V: Ptr{L: l}}
}

func init() {
	extraIntrinsics = append(extraIntrinsics, func(w *World) {
		V := VerifPkgPath + "."
		w.reg(V+"FSCrashPoints", func(e *Exec, fn *ssa.Function, a []Value) Value {
			e.fsm().crashOn = a[0].(*Term).IsTrue()
			return nil
		})
		w.reg(V+"FSFaults", func(e *Exec, fn *ssa.Function, a []Value) Value {
			e.fsm().faultsOn = a[0].(*Term).IsTrue()
			return nil
		})
		w.reg(V+"FSCrashed", func(e *Exec, fn *ssa.Function, a []Value) Value {
			return e.tb.Bool(e.fsm().crashed)
		})
		w.reg(V+"TempPath", func(e *Exec, fn *ssa.Function, a []Value) Value {
			fs := e.fsm()
			fs.files["/vtmp"] = &fsFile{isDir: true}
			return e.strConst("/vtmp/" + e.argStr(a[0], "TempPath name"))
		})
		// FSFileBytes(path) ([]byte, bool): content of a file in the model (harness oracle)
		w.reg(V+"FSFileBytes", func(e *Exec, fn *ssa.Function, a []Value) Value {
			p := cleanPath(e.argStr(a[0], "path"))
			f, ok := e.fsm().files[p]
			if !ok || f.isDir {
				return TupleV{SliceV{}, e.tb.False}
			}
			return TupleV{e.bytesToSlice(append([]*Term(nil), f.data...)), e.tb.True}
		})
		w.reg(V+"FSList", func(e *Exec, fn *ssa.Function, a []Value) Value {
			var names []string
			for p, f := range e.fsm().files {
				if !f.isDir {
					names = append(names, p)
				}
			}
			sort.Strings(names)
			arr := e.newArrayLoc(types.Typ[types.String], len(names))
			for i, n := range names {
				arr.Kids[i].V = e.strConst(n)
			}
			return SliceV{Arr: arr, Len: len(names), Cap: len(names)}
		})

		w.reg("os.Open", func(e *Exec, fn *ssa.Function, a []Value) Value {
			f, err := e.fsOpen(e.argStr(a[0], "path"), oRDONLY)
			return TupleV{f, err}
		})
		w.reg("os.Create", func(e *Exec, fn *ssa.Function, a []Value) Value {
			f, err := e.fsOpen(e.argStr(a[0], "path"), oRDWR|oCREATE|oTRUNC)
			return TupleV{f, err}
		})
		w.reg("os.OpenFile", func(e *Exec, fn *ssa.Function, a []Value) Value {
			f, err := e.fsOpen(e.argStr(a[0], "path"), e.argInt(a[1], "open flags"))
			return TupleV{f, err}
		})
		w.reg("os.ReadFile", func(e *Exec, fn *ssa.Function, a []Value) Value {
			p := cleanPath(e.argStr(a[0], "path"))
			f, ok := e.fsm().files[p]
			if !ok || f.isDir {
				return TupleV{SliceV{}, e.errNotExist("open", p)}
			}
			return TupleV{e.bytesToSlice(append([]*Term(nil), f.data...)), e.zero(e.errT())}
		})
		w.reg("os.WriteFile", func(e *Exec, fn *ssa.Function, a []Value) Value {
			p := cleanPath(e.argStr(a[0], "path"))
			if e.fsStep("writefile", p) {
				return e.errIO("write", p)
			}
			if !e.dirExists(parentDir(p)) {
				return e.errNotExist("open", p)
			}
			e.fsm().files[p] = &fsFile{data: e.sliceBytes(a[1].(SliceV))}
			return e.zero(e.errT())
		})
		w.reg("os.Remove", func(e *Exec, fn *ssa.Function, a []Value) Value {
			p := cleanPath(e.argStr(a[0], "path"))
			if e.fsStep("remove", p) {
				return e.errIO("remove", p)
			}
			if _, ok := e.fsm().files[p]; !ok {
				return e.errNotExist("remove", p)
			}
			delete(e.fsm().files, p)
			return e.zero(e.errT())
		})
		w.reg("os.RemoveAll", func(e *Exec, fn *ssa.Function, a []Value) Value {
			p := cleanPath(e.argStr(a[0], "path"))
			if e.fsStep("removeall", p) {
				return e.errIO("removeall", p)
			}
			for k := range e.fsm().files {
				if k == p || strings.HasPrefix(k, p+"/") {
					delete(e.fsm().files, k)
				}
			}
			return e.zero(e.errT())
		})
		w.reg("os.Rename", func(e *Exec, fn *ssa.Function, a []Value) Value {
			from, to := cleanPath(e.argStr(a[0], "path")), cleanPath(e.argStr(a[1], "path"))
			if e.fsStep("rename", from+" -> "+to) {
				return e.errIO("rename", from)
			}
			f, ok := e.fsm().files[from]
			if !ok {
				return e.errNotExist("rename", from)
			}
			if !e.dirExists(parentDir(to)) {
				return e.errNotExist("rename", to)
			}
			delete(e.fsm().files, from)
			e.fsm().files[to] = f // atomic replace
			return e.zero(e.errT())
		})
		mkdirAll := func(e *Exec, fn *ssa.Function, a []Value) Value {
			p := cleanPath(e.argStr(a[0], "path"))
			if e.fsStep("mkdir", p) {
				return e.errIO("mkdir", p)
			}
			for q := p; q != "/" && q != "."; q = parentDir(q) {
				if f, ok := e.fsm().files[q]; ok && !f.isDir {
					return e.pathError("mkdir", q, e.errorValue("not a directory"))
				}
				e.fsm().files[q] = &fsFile{isDir: true}
			}
			return e.zero(e.errT())
		}
		w.reg("os.MkdirAll", mkdirAll)
		w.reg("os.Mkdir", mkdirAll)
		stat := func(e *Exec, fn *ssa.Function, a []Value) Value {
			p := cleanPath(e.argStr(a[0], "path"))
			f, ok := e.fsm().files[p]
			fit := fn.Signature.Results().At(0).Type()
			if !ok {
				return TupleV{e.zero(fit), e.errNotExist("stat", p)}
			}
			return TupleV{e.fileInfo(p, f), e.zero(e.errT())}
		}
		w.reg("os.Stat", stat)
		w.reg("os.Lstat", stat)

		w.reg("(*os.File).Read", func(e *Exec, fn *ssa.Function, a []Value) Value {
			of := e.openOf(a[0])
			buf := a[1].(SliceV)
			f := e.fsm().files[of.path]
			if f == nil {
				f = &fsFile{}
			}
			if buf.Len == 0 {
				return TupleV{e.mkInt(0), e.zero(e.errT())}
			}
			rem := len(f.data) - of.pos
			if rem <= 0 {
				return TupleV{e.mkInt(0), e.globalValue("io", "EOF")}
			}
			n := buf.Len
			if rem < n {
				n = rem
			}
			for i := 0; i < n; i++ {
				e.store(buf.Arr.Kids[buf.Off+i], f.data[of.pos+i])
			}
			of.pos += n
			return TupleV{e.mkInt(n), e.zero(e.errT())}
		})
		write := func(e *Exec, of *openFile, bs []*Term) Value {
			if of.closed || !of.write {
				return TupleV{e.mkInt(0), e.pathError("write", of.path, e.errorValue("bad file descriptor"))}
			}
			if e.fsStep("write", of.path) {
				// injected fault: possibly a partial write
				n := 0
				if e.fsm().partialOn && len(bs) > 1 {
					n = e.choose(len(bs), "partial-write")
				}
				f := e.fsm().files[of.path]
				if f != nil && n > 0 {
					f.data = append(f.data[:len(f.data):len(f.data)], bs[:n]...)
					of.pos = len(f.data)
				}
				return TupleV{e.mkInt(n), e.errIO("write", of.path)}
			}
			f := e.fsm().files[of.path]
			if f == nil { // file was unlinked: writes go nowhere visible
				return TupleV{e.mkInt(len(bs)), e.zero(e.errT())}
			}
			if of.app {
				of.pos = len(f.data)
			}
			nd := append([]*Term(nil), f.data...)
			for len(nd) < of.pos {
				nd = append(nd, e.byteConst(0))
			}
			for i, b := range bs {
				if of.pos+i < len(nd) {
					nd[of.pos+i] = b
				} else {
					nd = append(nd, b)
				}
			}
			f.data = nd
			of.pos += len(bs)
			return TupleV{e.mkInt(len(bs)), e.zero(e.errT())}
		}
		w.reg("(*os.File).Write", func(e *Exec, fn *ssa.Function, a []Value) Value {
			return write(e, e.openOf(a[0]), e.sliceBytes(a[1].(SliceV)))
		})
		w.reg("(*os.File).WriteString", func(e *Exec, fn *ssa.Function, a []Value) Value {
			return write(e, e.openOf(a[0]), e.plainStr(a[1].(*StrV)).B)
		})
		w.reg("(*os.File).Close", func(e *Exec, fn *ssa.Function, a []Value) Value {
			of := e.openOf(a[0])
			if of.closed {
				return e.pathError("close", of.path, e.errorValue("file already closed"))
			}
			of.closed = true
			return e.zero(e.errT())
		})
		w.reg("(*os.File).Sync", func(e *Exec, fn *ssa.Function, a []Value) Value {
			of := e.openOf(a[0])
			if e.fsStep("sync", of.path) {
				return e.errIO("sync", of.path)
			}
			return e.zero(e.errT())
		})
		w.reg("(*os.File).Name", func(e *Exec, fn *ssa.Function, a []Value) Value {
			return e.strConst(e.openOf(a[0]).path)
		})
		w.reg("(*os.File).Stat", func(e *Exec, fn *ssa.Function, a []Value) Value {
			of := e.openOf(a[0])
			f := e.fsm().files[of.path]
			fit := fn.Signature.Results().At(0).Type()
			if f == nil {
				return TupleV{e.zero(fit), e.errNotExist("stat", of.path)}
			}
			return TupleV{e.fileInfo(of.path, f), e.zero(e.errT())}
		})
		w.reg("(*os.File).Seek", func(e *Exec, fn *ssa.Function, a []Value) Value {
			of := e.openOf(a[0])
			off := e.argInt(a[1], "seek offset")
			wh := e.argInt(a[2], "seek whence")
			f := e.fsm().files[of.path]
			n := 0
			if f != nil {
				n = len(f.data)
			}
			switch wh {
			case 0:
				of.pos = off
			case 1:
				of.pos += off
			case 2:
				of.pos = n + off
			}
			return TupleV{e.mkInt(of.pos), e.zero(e.errT())}
		})
		w.reg("(*os.File).Truncate", func(e *Exec, fn *ssa.Function, a []Value) Value {
			of := e.openOf(a[0])
			n := e.argInt(a[1], "truncate size")
			if e.fsStep("truncate", of.path) {
				return e.errIO("truncate", of.path)
			}
			f := e.fsm().files[of.path]
			if f != nil {
				for len(f.data) < n {
					f.data = append(f.data, e.byteConst(0))
				}
				f.data = f.data[:n:n]
			}
			return e.zero(e.errT())
		})
	})
}

func init() {
	extraIntrinsics = append(extraIntrinsics, func(w *World) {
		// os.CreateTemp(dir, pattern): a fresh name in dir (the model replaces the random part
		// by a counter; uniqueness is what callers rely on).
		w.reg("os.CreateTemp", func(e *Exec, fn *ssa.Function, a []Value) Value {
			dir := cleanPath(e.argStr(a[0], "dir"))
			pat := e.argStr(a[1], "pattern")
			fs := e.fsm()
			fs.tmpSeq++
			name := strings.Replace(pat, "*", "tmp"+itoa(fs.tmpSeq), 1)
			if !strings.Contains(pat, "*") {
				name = pat + "tmp" + itoa(fs.tmpSeq)
			}
			if dir == "." || dir == "" {
				dir = "/tmp"
				fs.files["/tmp"] = &fsFile{isDir: true}
			}
			f, err := e.fsOpen(dir+"/"+name, oRDWR|oCREATE|oEXCL)
			return TupleV{f, err}
		})
		w.reg("os.MkdirTemp", func(e *Exec, fn *ssa.Function, a []Value) Value {
			fs := e.fsm()
			fs.tmpSeq++
			p := "/tmp/dir" + itoa(fs.tmpSeq)
			fs.files["/tmp"] = &fsFile{isDir: true}
			fs.files[p] = &fsFile{isDir: true}
			return TupleV{e.strConst(p), e.zero(e.errT())}
		})
		w.reg("os.Getwd", func(e *Exec, fn *ssa.Function, a []Value) Value {
			return TupleV{e.strConst("/cwd"), e.zero(e.errT())}
		})
		w.reg("os.Chmod", zeroResult)
		w.reg("(*os.File).Chmod", zeroResult)
	})
}

func init() {
	extraIntrinsics = append(extraIntrinsics, func(w *World) {
		w.reg(VerifPkgPath+".FSWriteFile", func(e *Exec, fn *ssa.Function, a []Value) Value {
			p := cleanPath(e.argStr(a[0], "path"))
			e.fsm().files[p] = &fsFile{data: e.sliceBytes(a[1].(SliceV))}
			return nil
		})
	})
}
