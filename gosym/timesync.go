package gosym

import (
	"go/token"
	"go/types"
	"math"
	"math/big"
	"time"

	"golang.org/x/tools/go/ssa"
)

func mathFloat64bits(f float64) uint64 { return math.Float64bits(f) }
func mathFloat64frombits(b uint64) float64 { return math.Float64frombits(b) }
func mathAbs(f float64) float64        { return math.Abs(f) }

var zeroTimeNS = new(big.Int).Mul(big.NewInt(-62135596800), big.NewInt(1_000_000_000))

func (e *Exec) zeroTime() TimeV { return TimeV{NS: e.tb.Int(zeroTimeNS)} }

func (e *Exec) newTimeVar(name string) *Term {
	name = sanitize(name)
	n := e.varSeq[name]
	e.varSeq[name] = n + 1
	if n > 0 {
		name = name + "!" + big.NewInt(int64(n)).String()
	}
	v := e.tb.VarRange(name, big.NewInt(0), pow2(62))
	e.pathVars = append(e.pathVars, v)
	return v
}

// durTerm converts a Duration value (mode sort) to an Int term.
func (e *Exec) durToInt(d *Term) *Term {
	if d.S.K == KInt {
		return d
	}
	if d.Const {
		return e.tb.Int(toSigned(d.I, 64))
	}
	e.ooe("time arithmetic with a symbolic duration needs -mode lia")
	return nil
}

// intToMode converts an Int term to the mode's int64 representation.
func (e *Exec) intToInt64(t *Term) *Term {
	if e.mode == "lia" {
		return e.tb.IWrap(t, 64, true)
	}
	if t.Const {
		return e.tb.BV(64, t.I)
	}
	// bv mode: a clock-derived integer becomes an arbitrary 64-bit value (the
	// relation to the abstract instant is dropped; harnesses that reason about
	// time use lia mode).
	e.stubs["bv mode: clock-derived integer = arbitrary int64"] = true
	return e.newVar("havoc_time_int", SBV(64))
}

func (e *Exec) saturate64(t *Term) *Term {
	tb := e.tb
	lo := new(big.Int).Neg(pow2(63))
	hi := new(big.Int).Sub(pow2(63), bigOne)
	if t.Lo != nil && t.Hi != nil && t.Lo.Cmp(lo) >= 0 && t.Hi.Cmp(hi) <= 0 {
		return t
	}
	r := tb.Ite(tb.ILt(t, tb.Int(lo)), tb.Int(lo), tb.Ite(tb.ILt(tb.Int(hi), t), tb.Int(hi), t))
	return r
}

func (e *Exec) now() TimeV {
	if e.clockFixed != nil {
		return TimeV{NS: e.clockFixed}
	}
	t := e.newTimeVar("now")
	e.clockN++
	if e.clockMono && e.clockLast != nil {
		e.assume(e.tb.ILe(e.clockLast, t))
	}
	if e.clockFirst == nil {
		e.clockFirst = t
	} else if e.clockSpan != nil {
		e.assume(e.tb.ILe(e.tb.ISub(t, e.clockFirst), e.clockSpan))
	}
	e.clockLast = t
	e.namedInfo = append(e.namedInfo, NamedVar{Name: t.Name, Kind: "clock", Term: t})
	return TimeV{NS: t}
}

func (e *Exec) floorDiv(t *Term, k int64) *Term { return e.tb.IDivE(t, e.tb.Inti(k)) }

func (w *World) registerTime() {
	tm := func(v Value) *Term { return v.(TimeV).NS }
	offOf := func(v Value) int64 { return v.(TimeV).OffSec }
	w.reg("time.Now", func(e *Exec, fn *ssa.Function, a []Value) Value { return e.now() })
	w.reg("time.Since", func(e *Exec, fn *ssa.Function, a []Value) Value {
		n := e.now()
		return e.intToInt64(e.saturate64(e.tb.ISub(n.NS, tm(a[0]))))
	})
	w.reg("time.Until", func(e *Exec, fn *ssa.Function, a []Value) Value {
		n := e.now()
		return e.intToInt64(e.saturate64(e.tb.ISub(tm(a[0]), n.NS)))
	})
	w.reg("time.Sleep", zeroResult)
	// Duration -> float: exact for constants, otherwise an arbitrary float (the
	// value only feeds Retry-After style hints, never a decision under test).
	for _, nm := range []string{"Seconds", "Minutes", "Hours"} {
		div := map[string]float64{"Seconds": 1e9, "Minutes": 60e9, "Hours": 3600e9}[nm]
		w.reg("(time.Duration)."+nm, func(e *Exec, fn *ssa.Function, a []Value) Value {
			d := a[0].(*Term)
			if c, ok := e.concInt(d, niInt); ok {
				return e.tb.FP(64, float64(c)/div)
			}
			return e.newVar("havoc_duration_float", SFP(64))
		})
	}
	w.reg("(time.Time).Add", func(e *Exec, fn *ssa.Function, a []Value) Value {
		return TimeV{NS: e.tb.IAdd(tm(a[0]), e.durToInt(a[1].(*Term))), OffSec: offOf(a[0])}
	})
	w.reg("(time.Time).Sub", func(e *Exec, fn *ssa.Function, a []Value) Value {
		return e.intToInt64(e.saturate64(e.tb.ISub(tm(a[0]), tm(a[1]))))
	})
	w.reg("(time.Time).Before", func(e *Exec, fn *ssa.Function, a []Value) Value { return e.tb.ILt(tm(a[0]), tm(a[1])) })
	w.reg("(time.Time).After", func(e *Exec, fn *ssa.Function, a []Value) Value { return e.tb.ILt(tm(a[1]), tm(a[0])) })
	w.reg("(time.Time).Equal", func(e *Exec, fn *ssa.Function, a []Value) Value { return e.tb.Eq(tm(a[0]), tm(a[1])) })
	w.reg("(time.Time).Compare", func(e *Exec, fn *ssa.Function, a []Value) Value {
		x, y := tm(a[0]), tm(a[1])
		return e.tb.Ite(e.tb.ILt(x, y), e.intConst(niInt, -1), e.tb.Ite(e.tb.ILt(y, x), e.mkInt(1), e.mkInt(0)))
	})
	w.reg("(time.Time).IsZero", func(e *Exec, fn *ssa.Function, a []Value) Value {
		return e.tb.Eq(tm(a[0]), e.tb.Int(zeroTimeNS))
	})
	w.reg("(time.Time).UnixNano", func(e *Exec, fn *ssa.Function, a []Value) Value { return e.intToInt64(tm(a[0])) })
	w.reg("(time.Time).UnixMicro", func(e *Exec, fn *ssa.Function, a []Value) Value {
		return e.intToInt64(e.floorDiv(tm(a[0]), 1000))
	})
	w.reg("(time.Time).UnixMilli", func(e *Exec, fn *ssa.Function, a []Value) Value {
		return e.intToInt64(e.floorDiv(tm(a[0]), 1_000_000))
	})
	w.reg("(time.Time).Unix", func(e *Exec, fn *ssa.Function, a []Value) Value {
		return e.intToInt64(e.floorDiv(tm(a[0]), 1_000_000_000))
	})
	ident := func(e *Exec, fn *ssa.Function, a []Value) Value { return a[0] }
	w.reg("(time.Time).UTC", func(e *Exec, fn *ssa.Function, a []Value) Value { return TimeV{NS: tm(a[0])} })
	w.reg("(time.Time).Local", ident)
	w.reg("(time.Time).In", ident)
	w.reg("(time.Time).Round", func(e *Exec, fn *ssa.Function, a []Value) Value {
		d := a[1].(*Term)
		if c, ok := e.concInt(d, niInt); ok && c <= 0 {
			return a[0]
		}
		e.ooe("time.Round with positive duration")
		return nil
	})
	w.reg("(time.Time).Truncate", func(e *Exec, fn *ssa.Function, a []Value) Value {
		d := e.durToInt(a[1].(*Term))
		t := tm(a[0])
		k := e.tb.Int(new(big.Int).Neg(zeroTimeNS))
		if d.Const {
			if d.I.Sign() <= 0 {
				return a[0]
			}
			return TimeV{NS: e.tb.ISub(t, e.tb.IModE(e.tb.IAdd(t, k), d)), OffSec: offOf(a[0])}
		}
		if e.branch(e.tb.ILe(d, e.tb.Inti(0))) {
			return a[0]
		}
		return TimeV{NS: e.tb.ISub(t, e.tb.IModE(e.tb.IAdd(t, k), d)), OffSec: offOf(a[0])}
	})
	w.reg("(time.Time).AddDate", func(e *Exec, fn *ssa.Function, a []Value) Value {
		y, m, d := a[1].(*Term), a[2].(*Term), a[3].(*Term)
		yc, ok1 := e.concInt(y, niInt)
		mc, ok2 := e.concInt(m, niInt)
		if ok1 && ok2 && yc == 0 && mc == 0 {
			day := e.tb.Inti(86400_000_000_000)
			return TimeV{NS: e.tb.IAdd(tm(a[0]), e.tb.IMul(e.durToInt(d), day)), OffSec: offOf(a[0])}
		}
		if t := tm(a[0]); t.Const && ok1 && ok2 {
			if dc, ok := e.concInt(d, niInt); ok {
				ht := time.Unix(0, 0).UTC().Add(0)
				_ = ht
				sec := new(big.Int)
				ns := new(big.Int)
				sec.DivMod(t.I, big.NewInt(1_000_000_000), ns)
				r := time.Unix(sec.Int64(), ns.Int64()).In(time.FixedZone("", int(offOf(a[0])))).AddDate(int(yc), int(mc), int(dc))
				v := new(big.Int).Mul(big.NewInt(r.Unix()), big.NewInt(1_000_000_000))
				v.Add(v, big.NewInt(int64(r.Nanosecond())))
				return TimeV{NS: e.tb.Int(v), OffSec: offOf(a[0])}
			}
		}
		e.ooe("AddDate with years/months on symbolic time")
		return nil
	})
	w.reg("time.Unix", func(e *Exec, fn *ssa.Function, a []Value) Value {
		s, ns := e.durToInt(a[0].(*Term)), e.durToInt(a[1].(*Term))
		return TimeV{NS: e.tb.IAdd(e.tb.IMul(s, e.tb.Inti(1_000_000_000)), ns)}
	})
	w.reg("time.Date", func(e *Exec, fn *ssa.Function, a []Value) Value {
		var v [7]int
		for i := 0; i < 7; i++ {
			t, ok := a[i].(*Term)
			if !ok {
				e.ooe("time.Date: unexpected argument")
			}
			c, ok := e.concInt(t, niInt)
			if !ok {
				e.ooe("time.Date with a symbolic component")
			}
			v[i] = int(c)
		}
		r := time.Date(v[0], time.Month(v[1]), v[2], v[3], v[4], v[5], v[6], time.UTC)
		ns := new(big.Int).Mul(big.NewInt(r.Unix()), big.NewInt(1_000_000_000))
		ns.Add(ns, big.NewInt(int64(r.Nanosecond())))
		e.stubs["time.Date(constants, loc) evaluated as UTC"] = true
		return TimeV{NS: e.tb.Int(ns)}
	})
	w.reg("time.UnixMilli", func(e *Exec, fn *ssa.Function, a []Value) Value {
		return TimeV{NS: e.tb.IMul(e.durToInt(a[0].(*Term)), e.tb.Inti(1_000_000))}
	})
	w.reg("time.UnixMicro", func(e *Exec, fn *ssa.Function, a []Value) Value {
		return TimeV{NS: e.tb.IMul(e.durToInt(a[0].(*Term)), e.tb.Inti(1000))}
	})
	w.reg("(time.Time).Format", func(e *Exec, fn *ssa.Function, a []Value) Value {
		layout := e.argStr(a[1], "time layout")
		t := tm(a[0])
		if t.Const {
			sec, ns := new(big.Int), new(big.Int)
			sec.DivMod(t.I, big.NewInt(1_000_000_000), ns)
			return e.strConst(time.Unix(sec.Int64(), ns.Int64()).In(time.FixedZone("", int(offOf(a[0])))).Format(layout))
		}
		if off := offOf(a[0]); off != 0 {
			// wall clock of a fixed-offset location
			t = e.tb.IAdd(t, e.tb.Int(new(big.Int).Mul(big.NewInt(off), big.NewInt(1_000_000_000))))
		}
		if comps := numericLayout(layout, e.timeFmtDigits); comps != nil && e.mode == "lia" {
			// Fixed-width numeric layout built from "2006", "01", "02", "15" and
			// separators: a byte vector whose digits are uninterpreted functions of
			// the day (hour for "15") index of the instant. Congruence only: equal
			// days/hours give equal text. Years 0001..9999 (4 digits) are assumed.
			e.stubs["(time.Time).Format of a symbolic instant with a layout built from \"2006\", \"01\", \"02\", \"15\" and separators = digit bytes that are uninterpreted functions of its UTC day (hour for \"15\") index; instants assumed within years 0001..9999"] = true
			lo := e.tb.Int(zeroTimeNS)
			hi := e.tb.Int(new(big.Int).Mul(big.NewInt(253402300800), big.NewInt(1_000_000_000)))
			e.assume(e.tb.And(e.tb.ILe(lo, t), e.tb.ILt(t, hi)))
			var bs []*Term
			for _, c := range comps {
				if c.tok == "" {
					bs = append(bs, e.byteConst(c.lit))
					continue
				}
				idx := e.floorDiv(t, c.gran)
				for i := 0; i < len(c.tok); i++ {
					b := e.tb.UF("timefmt_"+c.tok+"_"+big.NewInt(int64(i)).String(), SInt, idx)
					if b.Lo == nil {
						b.Lo, b.Hi = big.NewInt('0'), big.NewInt('9')
					}
					e.assumeRange(b)
					bs = append(bs, b)
				}
			}
			return &StrV{B: bs}
		}
		return &StrV{Abs: &absStr{Kind: "timefmt", Layout: layout, T: t}}
	})
	w.reg("(time.Time).String", func(e *Exec, fn *ssa.Function, a []Value) Value { return e.strConst("<time>") })
	w.reg("time.Parse", func(e *Exec, fn *ssa.Function, a []Value) Value {
		layout := e.argStr(a[0], "time layout")
		s := a[1].(*StrV)
		errT := types.Universe.Lookup("error").Type()
		if comps := numericLayout(layout, e.timeFmtDigits); comps != nil && e.timeFmtDigits && s.Abs == nil && s.Opts == nil {
			// inverse of the digit-mode Format: the text must be a digit string produced
			// by Format with the same layout; the instant is recovered from the index
			// of its finest component
			pos, ok := 0, true
			var fine *Term
			fineGran := int64(0)
			for _, c := range comps {
				n := 1
				if c.tok != "" {
					n = len(c.tok)
				}
				if pos+n > len(s.B) {
					ok = false
					break
				}
				if c.tok == "" {
					if cb, isC := e.concInt(s.B[pos], niByte); !isC || byte(cb) != c.lit {
						ok = false
						break
					}
				} else {
					b := s.B[pos]
					if b.Op != "uf" || b.Name != "timefmt_"+c.tok+"_0" || len(b.Args) != 1 {
						ok = false
						break
					}
					if fine == nil || c.gran < fineGran {
						fine, fineGran = b.Args[0], c.gran
					}
				}
				pos += n
			}
			if ok && pos == len(s.B) && fine != nil {
				return TupleV{TimeV{NS: e.tb.IMul(fine, e.tb.Inti(fineGran))}, e.zero(errT)}
			}
			if _, isC := e.concStr(s); !isC {
				e.ooe("time.Parse of a symbolic string that is not the digit-mode Format of an instant (layout %q)", layout)
			}
		}
		if s.Abs != nil && s.Abs.Kind == "timefmt" && s.Abs.Layout == layout {
			g := layoutGranularity(layout)
			if g == 0 {
				e.ooe("time.Parse of a formatted symbolic time with layout %q", layout)
			}
			return TupleV{TimeV{NS: e.tb.IMul(e.floorDiv(s.Abs.T, g), e.tb.Inti(g))}, e.zero(errT)}
		}
		if cs, ok := e.concStr(s); ok && s.Abs == nil {
			r, err := time.Parse(layout, cs)
			if err != nil {
				return TupleV{e.zeroTime(), e.errorValue(err.Error())}
			}
			v := new(big.Int).Mul(big.NewInt(r.Unix()), big.NewInt(1_000_000_000))
			v.Add(v, big.NewInt(int64(r.Nanosecond())))
			// a literal with a numeric offset yields a value in that fixed zone
			_, off := r.Zone()
			return TupleV{TimeV{NS: e.tb.Int(v), OffSec: int64(off)}, e.zero(errT)}
		}
		e.ooe("time.Parse of a symbolic string")
		return nil
	})
	w.reg("time.ParseInLocation", func(e *Exec, fn *ssa.Function, a []Value) Value {
		layout := e.argStr(a[0], "time layout")
		s := a[1].(*StrV)
		errT := types.Universe.Lookup("error").Type()
		if cs, ok := e.concStr(s); ok && s.Abs == nil {
			e.stubs["time.ParseInLocation(layout, constant, loc): loc taken as UTC for text without an offset"] = true
			r, err := time.ParseInLocation(layout, cs, time.UTC)
			if err != nil {
				return TupleV{e.zeroTime(), e.errorValue(err.Error())}
			}
			v := new(big.Int).Mul(big.NewInt(r.Unix()), big.NewInt(1_000_000_000))
			v.Add(v, big.NewInt(int64(r.Nanosecond())))
			_, off := r.Zone()
			return TupleV{TimeV{NS: e.tb.Int(v), OffSec: int64(off)}, e.zero(errT)}
		}
		e.ooe("time.ParseInLocation of a symbolic string")
		return nil
	})
	w.reg("time.LoadLocation", func(e *Exec, fn *ssa.Function, a []Value) Value {
		return TupleV{Ptr{}, e.zero(types.Universe.Lookup("error").Type())}
	})
}

type layoutComp struct {
	tok  string // "2006" | "01" | "02" | "15", or "" for a literal byte
	lit  byte
	gran int64
}

// numericLayout splits a layout made only of the fixed-width numeric components used
// for partition paths ("2006", "01", "02", "15") and non-alphanumeric separators;
// nil for any other layout.
func numericLayout(layout string, full bool) []layoutComp {
	const day, hour = 86400_000_000_000, 3600_000_000_000
	var out []layoutComp
	for i := 0; i < len(layout); {
		switch {
		// digit mode (verif.TimeFormatDigits): minutes, seconds, the RFC 3339 'T' and a
		// UTC zone designator, so that RFC 3339 text is a 20-byte digit string too
		case full && len(layout)-i >= 2 && layout[i:i+2] == "04":
			out = append(out, layoutComp{tok: "04", gran: 60_000_000_000})
			i += 2
		case full && len(layout)-i >= 2 && layout[i:i+2] == "05":
			out = append(out, layoutComp{tok: "05", gran: 1_000_000_000})
			i += 2
		case full && layout[i] == 'T':
			out = append(out, layoutComp{lit: 'T'})
			i++
		case full && len(layout)-i >= 6 && layout[i:i+6] == "Z07:00":
			out = append(out, layoutComp{lit: 'Z'}) // instants are UTC
			i += 6
		case len(layout)-i >= 4 && layout[i:i+4] == "2006":
			out = append(out, layoutComp{tok: "2006", gran: day})
			i += 4
		case len(layout)-i >= 2 && (layout[i:i+2] == "01" || layout[i:i+2] == "02"):
			out = append(out, layoutComp{tok: layout[i : i+2], gran: day})
			i += 2
		case len(layout)-i >= 2 && layout[i:i+2] == "15":
			out = append(out, layoutComp{tok: "15", gran: hour})
			i += 2
		default:
			c := layout[i]
			if c >= '0' && c <= '9' || c >= 'a' && c <= 'z' || c >= 'A' && c <= 'Z' || c == '_' || c == '.' || c == ',' {
				return nil
			}
			out = append(out, layoutComp{lit: c})
			i++
		}
	}
	if len(out) == 0 {
		return nil
	}
	return out
}

// layoutGranularity: the time unit (ns) a layout preserves; 0 = unknown.
func layoutGranularity(layout string) int64 {
	switch layout {
	case time.RFC3339, "2006-01-02T15:04:05Z", "2006-01-02 15:04:05":
		return 1_000_000_000
	case time.RFC3339Nano:
		return 1
	}
	return 0
}

type absStr struct {
	Kind   string
	Layout string
	T      *Term
}

// ---------- sync ----------

type lockState struct {
	writer  bool
	readers int
	owner   int
}

func (e *Exec) lockOf(p Ptr) *lockState {
	if p.L == nil {
		e.goPanicf("invalid memory address or nil pointer dereference (mutex)")
	}
	if e.locks == nil {
		e.locks = map[*Loc]*lockState{}
	}
	ls, ok := e.locks[p.L]
	if !ok {
		ls = &lockState{}
		e.locks[p.L] = ls
	}
	return ls
}

func (w *World) registerSync() {
	lock := func(e *Exec, fn *ssa.Function, a []Value) Value {
		ls := e.lockOf(a[0].(Ptr))
		e.yield("lock")
		e.waitUntil(func() bool { return !ls.writer && ls.readers == 0 }, "Mutex.Lock")
		ls.writer = true
		return nil
	}
	unlock := func(e *Exec, fn *ssa.Function, a []Value) Value {
		ls := e.lockOf(a[0].(Ptr))
		if !ls.writer {
			e.abort("harness-error", "fatal error: sync: unlock of unlocked mutex")
		}
		ls.writer = false
		e.yield("unlock")
		return nil
	}
	w.reg("(*sync.Mutex).Lock", lock)
	w.reg("(*sync.Mutex).Unlock", unlock)
	w.reg("(*sync.Mutex).TryLock", func(e *Exec, fn *ssa.Function, a []Value) Value {
		ls := e.lockOf(a[0].(Ptr))
		if ls.writer || ls.readers > 0 {
			return e.tb.False
		}
		ls.writer = true
		return e.tb.True
	})
	w.reg("(*sync.RWMutex).Lock", lock)
	w.reg("(*sync.RWMutex).Unlock", unlock)
	w.reg("(*sync.RWMutex).RLock", func(e *Exec, fn *ssa.Function, a []Value) Value {
		ls := e.lockOf(a[0].(Ptr))
		e.yield("rlock")
		e.waitUntil(func() bool { return !ls.writer }, "RWMutex.RLock")
		ls.readers++
		return nil
	})
	w.reg("(*sync.RWMutex).RUnlock", func(e *Exec, fn *ssa.Function, a []Value) Value {
		ls := e.lockOf(a[0].(Ptr))
		if ls.readers <= 0 {
			e.abort("harness-error", "fatal error: sync: RUnlock of unlocked RWMutex")
		}
		ls.readers--
		e.yield("runlock")
		return nil
	})
	w.reg("(*sync.Once).Do", func(e *Exec, fn *ssa.Function, a []Value) Value {
		ls := e.lockOf(a[0].(Ptr))
		if ls.readers == 0 {
			ls.readers = 1
			e.callValue(a[1])
		}
		return nil
	})
	w.reg("(*sync.WaitGroup).Add", func(e *Exec, fn *ssa.Function, a []Value) Value {
		ls := e.lockOf(a[0].(Ptr))
		ls.readers += e.argInt(a[1], "wg.Add")
		return nil
	})
	w.reg("(*sync.WaitGroup).Done", func(e *Exec, fn *ssa.Function, a []Value) Value {
		ls := e.lockOf(a[0].(Ptr))
		ls.readers--
		e.yield("wg.Done")
		return nil
	})
	w.reg("(*sync.WaitGroup).Wait", func(e *Exec, fn *ssa.Function, a []Value) Value {
		ls := e.lockOf(a[0].(Ptr))
		if e.threads == nil && ls.readers > 0 {
			e.runPendingGo()
		}
		e.waitUntil(func() bool { return ls.readers <= 0 }, "WaitGroup.Wait")
		return nil
	})
	w.reg("(*sync.Pool).Get", func(e *Exec, fn *ssa.Function, a []Value) Value {
		p := a[0].(Ptr)
		// field New is the last exported field; find by name
		st := p.L.Typ.Underlying().(*types.Struct)
		for i := 0; i < st.NumFields(); i++ {
			if st.Field(i).Name() == "New" {
				if f, ok := p.L.Kids[i].V.(*FuncV); ok && f != nil {
					return e.callFunc(f, nil, "pool.New")
				}
			}
		}
		return IfaceV{}
	})
	w.reg("(*sync.Pool).Put", zeroResult)

	// ----- sync/atomic -----
	for _, ty := range []struct {
		n  string
		ni numInfo
	}{{"Int32", niInt32}, {"Int64", niInt}, {"Uint32", numInfo{W: 32, Int: true}}, {"Uint64", niUint64}, {"Uintptr", niUint64}} {
		ni := ty.ni
		w.reg("sync/atomic.Load"+ty.n, func(e *Exec, fn *ssa.Function, a []Value) Value {
			e.yield("atomic.Load")
			return e.loadPtr(a[0].(Ptr))
		})
		w.reg("sync/atomic.Store"+ty.n, func(e *Exec, fn *ssa.Function, a []Value) Value {
			e.yield("atomic.Store")
			e.storePtr(a[0].(Ptr), a[1])
			return nil
		})
		w.reg("sync/atomic.Add"+ty.n, func(e *Exec, fn *ssa.Function, a []Value) Value {
			e.yield("atomic.Add")
			p := a[0].(Ptr)
			v := e.arith(token.ADD, ni, e.loadPtr(p).(*Term), a[1].(*Term))
			e.storePtr(p, v)
			return v
		})
		w.reg("sync/atomic.Swap"+ty.n, func(e *Exec, fn *ssa.Function, a []Value) Value {
			e.yield("atomic.Swap")
			p := a[0].(Ptr)
			old := e.loadPtr(p)
			e.storePtr(p, a[1])
			return old
		})
		w.reg("sync/atomic.CompareAndSwap"+ty.n, func(e *Exec, fn *ssa.Function, a []Value) Value {
			e.yield("atomic.CAS")
			p := a[0].(Ptr)
			old := e.loadPtr(p).(*Term)
			if e.branch(e.tb.Eq(old, a[1].(*Term))) {
				e.storePtr(p, a[2])
				return e.tb.True
			}
			return e.tb.False
		})
		w.reg("sync/atomic.And"+ty.n, func(e *Exec, fn *ssa.Function, a []Value) Value {
			p := a[0].(Ptr)
			old := e.loadPtr(p).(*Term)
			e.storePtr(p, e.arith(token.AND, ni, old, a[1].(*Term)))
			return old
		})
		w.reg("sync/atomic.Or"+ty.n, func(e *Exec, fn *ssa.Function, a []Value) Value {
			p := a[0].(Ptr)
			old := e.loadPtr(p).(*Term)
			e.storePtr(p, e.arith(token.OR, ni, old, a[1].(*Term)))
			return old
		})
	}
	w.reg("sync/atomic.LoadPointer", func(e *Exec, fn *ssa.Function, a []Value) Value {
		e.yield("atomic.Load")
		return e.loadPtr(a[0].(Ptr))
	})
	w.reg("sync/atomic.StorePointer", func(e *Exec, fn *ssa.Function, a []Value) Value {
		e.yield("atomic.Store")
		e.storePtr(a[0].(Ptr), a[1])
		return nil
	})
	w.reg("sync/atomic.SwapPointer", func(e *Exec, fn *ssa.Function, a []Value) Value {
		p := a[0].(Ptr)
		old := e.loadPtr(p)
		e.storePtr(p, a[1])
		return old
	})
	w.reg("sync/atomic.CompareAndSwapPointer", func(e *Exec, fn *ssa.Function, a []Value) Value {
		p := a[0].(Ptr)
		old := e.loadPtr(p)
		if e.branch(e.valueEq(old, a[1])) {
			e.storePtr(p, a[2])
			return e.tb.True
		}
		return e.tb.False
	})
	// atomic.Value: stored as interface in field v
	w.reg("(*sync/atomic.Value).Load", func(e *Exec, fn *ssa.Function, a []Value) Value {
		p := a[0].(Ptr)
		return e.load(p.L.Kids[0])
	})
	w.reg("(*sync/atomic.Value).Store", func(e *Exec, fn *ssa.Function, a []Value) Value {
		p := a[0].(Ptr)
		e.store(p.L.Kids[0], a[1])
		return nil
	})
}
