package gosym

import (
	"go/token"
	"go/types"
	"unicode/utf8"

	"golang.org/x/tools/go/ssa"
)

func (e *Exec) callBuiltin(b *ssa.Builtin, args []Value, c *ssa.CallCommon) Value {
	switch b.Name() {
	case "len":
		switch x := args[0].(type) {
		case *StrV:
			if x.Opts != nil {
				return e.poolLen(x)
			}
			return e.mkInt(len(x.B))
		case SliceV:
			return e.mkInt(x.Len)
		case *MapV:
			if x == nil {
				return e.mkInt(0)
			}
			return e.mkInt(len(x.Keys))
		case *ChanV:
			if x == nil {
				return e.mkInt(0)
			}
			return e.mkInt(len(x.Buf))
		case Ptr:
			if x.L == nil {
				// len of nil *array is the array length (static), find from type
				return e.mkInt(0)
			}
			return e.mkInt(len(x.L.Kids))
		case *ArrayV:
			return e.mkInt(len(x.E))
		}
	case "cap":
		switch x := args[0].(type) {
		case SliceV:
			return e.mkInt(x.Cap)
		case *ChanV:
			if x == nil {
				return e.mkInt(0)
			}
			return e.mkInt(x.Cap)
		case Ptr:
			if x.L != nil {
				return e.mkInt(len(x.L.Kids))
			}
			return e.mkInt(0)
		case *ArrayV:
			return e.mkInt(len(x.E))
		}
	case "append":
		return e.appendOp(args[0].(SliceV), args[1], b.Type().(*types.Signature))
	case "copy":
		dst := args[0].(SliceV)
		n := dst.Len
		switch src := args[1].(type) {
		case SliceV:
			if src.Len < n {
				n = src.Len
			}
			// overlapping-safe: read first
			tmp := make([]Value, n)
			for i := 0; i < n; i++ {
				tmp[i] = e.load(src.Arr.Kids[src.Off+i])
			}
			for i := 0; i < n; i++ {
				e.store(dst.Arr.Kids[dst.Off+i], tmp[i])
			}
		case *StrV:
			src = e.plainStr(src)
			if len(src.B) < n {
				n = len(src.B)
			}
			for i := 0; i < n; i++ {
				e.store(dst.Arr.Kids[dst.Off+i], src.B[i])
			}
		}
		return e.mkInt(n)
	case "delete":
		m := args[0].(*MapV)
		if m != nil {
			e.mapDelete(m, args[1])
		}
		return nil
	case "clear":
		switch x := args[0].(type) {
		case *MapV:
			if x != nil {
				x.Keys, x.Vals = nil, nil
			}
		case SliceV:
			for i := 0; i < x.Len; i++ {
				k := x.Arr.Kids[x.Off+i]
				e.store(k, e.zero(k.Typ))
			}
		}
		return nil
	case "min", "max":
		res := args[0]
		t := b.Type().(*types.Signature).Params().At(0).Type()
		for _, a := range args[1:] {
			var op token.Token = token.LSS
			if b.Name() == "max" {
				op = token.GTR
			}
			c := e.binop(op, t, t, a, res).(*Term)
			switch r := res.(type) {
			case *Term:
				res = e.tb.Ite(c, a.(*Term), r)
			default:
				if e.branch(c) {
					res = a
				}
			}
		}
		return res
	case "print", "println":
		return nil
	case "recover":
		if e.curPanic != nil && !e.curPanic.recovered {
			e.curPanic.recovered = true
			return e.curPanic.V
		}
		return IfaceV{}
	case "close":
		ch := args[0].(*ChanV)
		if ch == nil {
			e.goPanicf("close of nil channel")
		}
		if ch.Closed {
			e.goPanicf("close of closed channel")
		}
		ch.Closed = true
		e.yield("close")
		return nil
	case "String": // unsafe.String(ptr *byte, len)
		p := args[0].(Ptr)
		n := e.argInt(args[1], "unsafe.String len")
		if n == 0 {
			return &StrV{}
		}
		arr, off := e.elemArray(p)
		if arr == nil || off+n > len(arr.Kids) {
			e.ooe("unsafe.String on a pointer that is not into a byte array")
		}
		b := make([]*Term, n)
		for i := range b {
			b[i] = arr.Kids[off+i].V.(*Term)
		}
		return &StrV{B: b}
	case "StringData": // unsafe.StringData(s) *byte (read-only view)
		s := e.plainStr(args[0].(*StrV))
		if len(s.B) == 0 {
			return Ptr{}
		}
		sl := e.bytesToSlice(s.B)
		return Ptr{L: sl.Arr.Kids[0]}
	case "SliceData": // unsafe.SliceData(s) *T
		s := args[0].(SliceV)
		if s.Arr == nil || s.Cap == 0 {
			return Ptr{}
		}
		return Ptr{L: s.Arr.Kids[s.Off]}
	case "Slice": // unsafe.Slice(ptr *T, len)
		p := args[0].(Ptr)
		n := e.argInt(args[1], "unsafe.Slice len")
		if p.IsNil() {
			return SliceV{}
		}
		arr, off := e.elemArray(p)
		if arr == nil || off+n > len(arr.Kids) {
			e.ooe("unsafe.Slice on a pointer that is not into an array")
		}
		return SliceV{Arr: arr, Off: off, Len: n, Cap: n}
	case "ssa:wrapnilchk":
		p := args[0].(Ptr)
		if p.IsNil() {
			e.goPanicf("value method called using nil pointer")
		}
		return p
	}
	if len(args) == 0 {
		e.ooe("builtin %s()", b.Name())
	}
	e.ooe("builtin %s on %T", b.Name(), args[0])
	return nil
}

func (e *Exec) poolLen(s *StrV) *Term {
	var res *Term
	for i := len(s.Opts) - 1; i >= 0; i-- {
		l := e.mkInt(len(s.Opts[i]))
		if res == nil {
			res = l
		} else {
			res = e.tb.Ite(e.tb.Eq(s.Sel, e.idxConst(s.Sel, i)), l, res)
		}
	}
	return res
}

func growCap(old, needed int) int {
	if needed > 2*old {
		return needed
	}
	if old < 256 {
		if 2*old < needed {
			return needed
		}
		if old == 0 {
			return needed
		}
		return 2 * old
	}
	nc := old
	for nc < needed {
		nc += (nc + 3*256) / 4
	}
	return nc
}

func (e *Exec) appendOp(s SliceV, add Value, sig *types.Signature) Value {
	var n int
	var getElem func(i int) Value
	var elemT types.Type
	if sl, ok := sig.Results().At(0).Type().Underlying().(*types.Slice); ok {
		elemT = sl.Elem()
	}
	switch a := add.(type) {
	case SliceV:
		n = a.Len
		getElem = func(i int) Value { return e.load(a.Arr.Kids[a.Off+i]) }
	case *StrV:
		a = e.plainStr(a)
		n = len(a.B)
		getElem = func(i int) Value { return a.B[i] }
	default:
		e.ooe("append of %T", add)
	}
	if n == 0 {
		return s
	}
	tmp := make([]Value, n)
	for i := range tmp {
		tmp[i] = getElem(i)
	}
	if s.Arr != nil && s.Len+n <= s.Cap {
		for i := 0; i < n; i++ {
			e.store(s.Arr.Kids[s.Off+s.Len+i], tmp[i])
		}
		return SliceV{Arr: s.Arr, Off: s.Off, Len: s.Len + n, Cap: s.Cap}
	}
	nc := growCap(s.Cap, s.Len+n)
	if elemT == nil {
		if s.Arr != nil && len(s.Arr.Kids) > 0 {
			elemT = s.Arr.Kids[0].Typ
		} else {
			e.ooe("append: unknown element type")
		}
	}
	arr := e.newArrayLoc(elemT, nc)
	for i := 0; i < s.Len; i++ {
		e.store(arr.Kids[i], e.load(s.Arr.Kids[s.Off+i]))
	}
	for i := 0; i < n; i++ {
		e.store(arr.Kids[s.Len+i], tmp[i])
	}
	return SliceV{Arr: arr, Len: s.Len + n, Cap: nc}
}

// ---- maps ----

// mapFind returns the index of key in m, forking on symbolic equalities.
func (e *Exec) mapFind(m *MapV, key Value) int {
	if iv, ok := key.(IfaceV); ok && iv.T != nil && !types.Comparable(iv.T) {
		e.goPanicf("hash of unhashable type %v", iv.T)
	}
	// first pass: definitely-equal entry?
	eqs := make([]*Term, len(m.Keys))
	for i, k := range m.Keys {
		c := e.valueEq(key, k)
		if c.IsTrue() {
			return i
		}
		eqs[i] = c
	}
	for i, c := range eqs {
		if c.IsFalse() {
			continue
		}
		if e.branch(c) {
			return i
		}
	}
	return -1
}

func (e *Exec) mapSet(m *MapV, key, val Value) {
	i := e.mapFind(m, key)
	if i >= 0 {
		m.Vals[i] = val
		return
	}
	// pool-string keys are kept symbolic
	m.Keys = append(m.Keys, key)
	m.Vals = append(m.Vals, val)
}

func (e *Exec) mapDelete(m *MapV, key Value) {
	i := e.mapFind(m, key)
	if i < 0 {
		return
	}
	m.Keys = append(m.Keys[:i:i], m.Keys[i+1:]...)
	m.Vals = append(m.Vals[:i:i], m.Vals[i+1:]...)
}

func (e *Exec) lookup(fr *frame, x *ssa.Lookup) Value {
	base := e.get(fr, x.X)
	if s, ok := base.(*StrV); ok {
		// string index (s[i] as Lookup)
		s = e.plainStr(s)
		idx := e.get(fr, x.Index).(*Term)
		ni, _ := basicInfo(x.Index.Type())
		ci, conc := e.checkIndex(idx, ni, len(s.B))
		if conc {
			return s.B[ci]
		}
		var res *Term
		for i := len(s.B) - 1; i >= 0; i-- {
			if res == nil {
				res = s.B[i]
			} else {
				res = e.tb.Ite(e.tb.Eq(idx, e.idxConst(idx, i)), s.B[i], res)
			}
		}
		return res
	}
	m := base.(*MapV)
	vt := x.X.Type().Underlying().(*types.Map).Elem()
	found := -1
	if m != nil {
		found = e.mapFind(m, e.get(fr, x.Index))
	}
	var v Value
	if found >= 0 {
		v = m.Vals[found]
	} else {
		v = e.zero(vt)
	}
	if x.CommaOk {
		return TupleV{v, e.tb.Bool(found >= 0)}
	}
	return v
}

type rangeIter struct {
	m    *MapV
	keys []Value
	vals []Value
	str  *StrV
	pos  int
}

func (e *Exec) rangeInit(fr *frame, x *ssa.Range) Value {
	switch b := e.get(fr, x.X).(type) {
	case *MapV:
		it := &rangeIter{m: b}
		if b != nil {
			it.keys = append([]Value(nil), b.Keys...)
			it.vals = append([]Value(nil), b.Vals...)
			if e.W.Opts.MapOrderReverse {
				for i, j := 0, len(it.keys)-1; i < j; i, j = i+1, j-1 {
					it.keys[i], it.keys[j] = it.keys[j], it.keys[i]
					it.vals[i], it.vals[j] = it.vals[j], it.vals[i]
				}
			}
		}
		return it
	case *StrV:
		return &rangeIter{str: e.plainStr(b)}
	}
	e.ooe("range over %v", x.X.Type())
	return nil
}

func (e *Exec) rangeNext(fr *frame, x *ssa.Next) Value {
	it := e.get(fr, x.Iter).(*rangeIter)
	tup := x.Type().(*types.Tuple)
	if x.IsString {
		if it.pos >= len(it.str.B) {
			return TupleV{e.tb.False, e.mkInt(0), e.intConst(niInt32, 0)}
		}
		// decode one rune; fork on the leading byte class when symbolic
		b0 := it.str.B[it.pos]
		start := it.pos
		if c, ok := e.concInt(b0, niByte); ok && c < utf8.RuneSelf {
			it.pos++
			return TupleV{e.tb.True, e.mkInt(start), e.intConst(niInt32, c)}
		}
		// general case: concretise up to 4 bytes
		var buf []byte
		for i := 0; i < 4 && it.pos+i < len(it.str.B); i++ {
			t := it.str.B[it.pos+i]
			c, ok := e.concInt(t, niByte)
			if !ok {
				if i == 0 {
					// ASCII fast path as a symbolic branch
					if e.branch(e.intCmp(token.LSS, niByte, t, e.byteConst(utf8.RuneSelf))) {
						it.pos++
						return TupleV{e.tb.True, e.mkInt(start), e.convInt(niByte, niInt32, t)}
					}
				}
				c = int64(e.concretizeInt(t, "range string rune"))
			}
			buf = append(buf, byte(c))
			if utf8.FullRune(buf) {
				break
			}
		}
		r, sz := utf8.DecodeRune(buf)
		it.pos += sz
		return TupleV{e.tb.True, e.mkInt(start), e.intConst(niInt32, int64(r))}
	}
	// map: skip entries deleted during iteration
	for it.pos < len(it.keys) {
		k, v := it.keys[it.pos], it.vals[it.pos]
		it.pos++
		// still present? (identity on key value is enough: keys are immutable)
		present := false
		for i, mk := range it.m.Keys {
			if sameValue(mk, k) {
				present = true
				v = it.m.Vals[i]
				break
			}
		}
		if !present {
			continue
		}
		return TupleV{e.tb.True, k, v}
	}
	return TupleV{e.tb.False, e.zero(tup.At(1).Type()), e.zero(tup.At(2).Type())}
}

func sameValue(a, b Value) bool {
	switch x := a.(type) {
	case *Term:
		y, ok := b.(*Term)
		return ok && x == y
	case *StrV:
		y, ok := b.(*StrV)
		if !ok {
			return false
		}
		if x == y {
			return true
		}
		if x.Opts != nil || y.Opts != nil || len(x.B) != len(y.B) {
			return false
		}
		for i := range x.B {
			if x.B[i] != y.B[i] {
				return false
			}
		}
		return true
	case IfaceV:
		y, ok := b.(IfaceV)
		return ok && x.T == y.T && sameValue(x.V, y.V)
	case Ptr:
		y, ok := b.(Ptr)
		return ok && x.L == y.L && x.Arr == y.Arr
	case *StructV:
		y, ok := b.(*StructV)
		if !ok || len(x.F) != len(y.F) {
			return false
		}
		for i := range x.F {
			if !sameValue(x.F[i], y.F[i]) {
				return false
			}
		}
		return true
	case *ArrayV:
		y, ok := b.(*ArrayV)
		if !ok || len(x.E) != len(y.E) {
			return false
		}
		for i := range x.E {
			if !sameValue(x.E[i], y.E[i]) {
				return false
			}
		}
		return true
	}
	return false
}

// ---- channels (single-thread semantics; thread mode yields) ----

func (e *Exec) chanSend(ch *ChanV, v Value, blocking bool) bool {
	if ch == nil {
		if blocking {
			e.blockForever("send on nil channel")
		}
		return false
	}
	if ch.Closed {
		e.goPanicf("send on closed channel")
	}
	for len(ch.Buf) >= ch.Cap {
		if !blocking {
			return false
		}
		if ch.Cap == 0 && e.threads != nil {
			// rendezvous: deposit and wait for a receiver
			ch.Buf = append(ch.Buf, v)
			e.waitUntil(func() bool { return len(ch.Buf) == 0 }, "unbuffered send")
			return true
		}
		e.waitUntil(func() bool { return len(ch.Buf) < ch.Cap || ch.Closed }, "send on full channel")
		if ch.Closed {
			e.goPanicf("send on closed channel")
		}
	}
	ch.Buf = append(ch.Buf, v)
	e.yield("send")
	return true
}

func (e *Exec) chanRecv(ch *ChanV, elem types.Type, blocking bool) (Value, bool) {
	if ch == nil {
		if blocking {
			e.blockForever("receive from nil channel")
		}
		return e.zero(elem), false
	}
	for len(ch.Buf) == 0 {
		if ch.Closed {
			return e.zero(elem), false
		}
		if !blocking {
			return nil, false
		}
		e.waitUntil(func() bool { return len(ch.Buf) > 0 || ch.Closed }, "receive on empty channel")
	}
	v := ch.Buf[0]
	ch.Buf = ch.Buf[1:]
	e.yield("recv")
	return v, true
}

func (e *Exec) selectOp(fr *frame, x *ssa.Select) Value {
	// result tuple: (index int, recvOk bool, r_0 T_0, ... r_n-1 T_n-1) for recv states
	tup := x.Type().(*types.Tuple)
	mk := func(idx int, ok bool, recvIdx int, val Value) Value {
		res := make(TupleV, tup.Len())
		res[0] = e.mkInt(idx)
		res[1] = e.tb.Bool(ok)
		for i := 2; i < tup.Len(); i++ {
			res[i] = e.zero(tup.At(i).Type())
		}
		if recvIdx >= 0 {
			res[2+recvIdx] = val
		}
		return res
	}
	try := func() (Value, bool) {
		ri := 0
		for i, st := range x.States {
			ch, _ := e.get(fr, st.Chan).(*ChanV)
			if st.Dir == types.SendOnly {
				if ch != nil && (len(ch.Buf) < ch.Cap || ch.Closed) {
					e.chanSend(ch, e.get(fr, st.Send), false)
					return mk(i, false, -1, nil), true
				}
			} else {
				if ch != nil && (len(ch.Buf) > 0 || ch.Closed) {
					v, ok := e.chanRecv(ch, st.Chan.Type().Underlying().(*types.Chan).Elem(), false)
					return mk(i, ok, ri, v), true
				}
				ri++
			}
		}
		return nil, false
	}
	for {
		if r, ok := try(); ok {
			return r
		}
		if !x.Blocking {
			return mk(-1, false, -1, nil)
		}
		e.waitUntil(func() bool {
			for _, st := range x.States {
				ch, _ := e.get(fr, st.Chan).(*ChanV)
				if ch == nil {
					continue
				}
				if st.Dir == types.SendOnly {
					if len(ch.Buf) < ch.Cap || ch.Closed {
						return true
					}
				} else if len(ch.Buf) > 0 || ch.Closed {
					return true
				}
			}
			return false
		}, "blocking select")
	}
}
