package gosym

import (
	"go/types"
	gopath "path"
	"sort"
	"strings"

	"golang.org/x/tools/go/ssa"
)

// io.Pipe model for deferred-goroutine mode: an unbounded byte queue. The writer never
// blocks; a read on an empty, open pipe first lets queued goroutines run (they may be the
// writer) and is a deadlock if nothing arrives. CloseWithError on either end is seen by
// the other end as in package io.

type pipeState struct {
	buf       []*Term
	wClosed   bool
	wErr      Value // error the reader gets once the buffer is drained (nil error => io.EOF)
	rClosed   bool
	rErr      Value // error the writer gets
	eofValue  Value
	closedErr Value
}

func (e *Exec) pipeOf(v Value) *pipeState {
	p, ok := v.(Ptr)
	if !ok || p.L == nil {
		e.ooe("pipe method on a nil pipe end")
	}
	st, ok := p.L.V.(*Opaque)
	if !ok {
		e.ooe("pipe end without state")
	}
	return st.Data.(*pipeState)
}

func init() {
	extraIntrinsics = append(extraIntrinsics, func(w *World) {
		errT := types.Universe.Lookup("error").Type()
		intT := types.Typ[types.Int]
		_ = intT
		w.reg("io.Pipe", func(e *Exec, fn *ssa.Function, a []Value) Value {
			st := &pipeState{}
			st.eofValue = e.globalValue("io", "EOF")
			st.closedErr = e.globalValue("io", "ErrClosedPipe")
			res := fn.Signature.Results()
			mk := func(i int) Ptr {
				t := res.At(i).Type().(*types.Pointer).Elem()
				return Ptr{L: &Loc{V: &Opaque{What: "io.Pipe end", Data: st}, Typ: t, id: e.newLocID()}}
			}
			e.stubs["io.Pipe = unbounded in-memory byte queue (writer never blocks); close/error propagation as in package io"] = true
			return TupleV{mk(0), mk(1)}
		})
		w.reg("(*io.PipeWriter).Write", func(e *Exec, fn *ssa.Function, a []Value) Value {
			st := e.pipeOf(a[0])
			s := a[1].(SliceV)
			if st.rClosed {
				err := st.rErr
				if iv, ok := err.(IfaceV); !ok || iv.T == nil {
					err = st.closedErr
				}
				return TupleV{e.mkInt(0), err}
			}
			if st.wClosed {
				return TupleV{e.mkInt(0), st.closedErr}
			}
			st.buf = append(st.buf, e.sliceBytes(s)...)
			return TupleV{e.mkInt(s.Len), e.zero(errT)}
		})
		closeW := func(e *Exec, a []Value, err Value) Value {
			st := e.pipeOf(a[0])
			if !st.wClosed {
				st.wClosed = true
				st.wErr = err
			}
			return e.zero(errT)
		}
		w.reg("(*io.PipeWriter).Close", func(e *Exec, fn *ssa.Function, a []Value) Value { return closeW(e, a, e.zero(errT)) })
		w.reg("(*io.PipeWriter).CloseWithError", func(e *Exec, fn *ssa.Function, a []Value) Value { return closeW(e, a, a[1]) })
		closeR := func(e *Exec, a []Value, err Value) Value {
			st := e.pipeOf(a[0])
			if !st.rClosed {
				st.rClosed = true
				st.rErr = err
			}
			return e.zero(errT)
		}
		w.reg("(*io.PipeReader).Close", func(e *Exec, fn *ssa.Function, a []Value) Value { return closeR(e, a, e.zero(errT)) })
		w.reg("(*io.PipeReader).CloseWithError", func(e *Exec, fn *ssa.Function, a []Value) Value { return closeR(e, a, a[1]) })
		w.reg("(*io.PipeReader).Read", func(e *Exec, fn *ssa.Function, a []Value) Value {
			st := e.pipeOf(a[0])
			dst := a[1].(SliceV)
			if st.rClosed {
				return TupleV{e.mkInt(0), st.closedErr}
			}
			if len(st.buf) == 0 && !st.wClosed && e.threads == nil {
				e.runPendingGo()
			}
			if len(st.buf) == 0 {
				if st.wClosed {
					if iv, ok := st.wErr.(IfaceV); ok && iv.T != nil {
						return TupleV{e.mkInt(0), st.wErr}
					}
					return TupleV{e.mkInt(0), st.eofValue}
				}
				e.abort("harness-error", "deadlock: read on an empty io.Pipe whose writer is not closed")
			}
			if dst.Len == 0 {
				return TupleV{e.mkInt(0), e.zero(errT)}
			}
			n := len(st.buf)
			if n > dst.Len {
				n = dst.Len
			}
			for i := 0; i < n; i++ {
				e.store(dst.Arr.Kids[dst.Off+i], st.buf[i])
			}
			st.buf = st.buf[n:]
			return TupleV{e.mkInt(n), e.zero(errT)}
		})
		// context: deadlines and cancellation are not modelled - a derived context is its
		// parent, cancel is a no-op (ctx.Err() of context.Background() is nil)
		noopCancel := func(e *Exec) *FuncV {
			return &FuncV{Name: "context.cancel(no-op)", Native: func(e *Exec, args []Value) Value { return nil }}
		}
		for _, nm := range []string{"context.WithTimeout", "context.WithDeadline", "context.WithCancel"} {
			w.reg(nm, func(e *Exec, fn *ssa.Function, a []Value) Value {
				e.stubs["context.WithTimeout/WithDeadline/WithCancel = the parent context with a no-op cancel (deadlines and cancellation not modelled)"] = true
				return TupleV{a[0], noopCancel(e)}
			})
		}
	})
}

func init() {
	extraIntrinsics = append(extraIntrinsics, func(w *World) {
		// (*os.File).ReadFrom(r): what io.Copy uses when the destination is a file and the
		// source has no WriteTo. Generic copy loop over r.Read and the file model's Write.
		w.reg("(*os.File).ReadFrom", func(e *Exec, fn *ssa.Function, a []Value) Value {
			errT := types.Universe.Lookup("error").Type()
			r, ok := a[1].(IfaceV)
			if !ok || r.T == nil {
				e.ooe("(*os.File).ReadFrom(nil reader)")
			}
			read := e.findMethod(r.T, "Read")
			if read == nil {
				e.ooe("ReadFrom: reader of type %v has no Read", r.T)
			}
			write := e.W.intr["(*os.File).Write"]
			eof := e.globalValue("io", "EOF")
			total := 0
			for iter := 0; iter < 4096; iter++ {
				buf := e.newArrayLoc(types.Typ[types.Uint8], 64)
				bs := SliceV{Arr: buf, Off: 0, Len: 64, Cap: 64}
				res := e.callFunc(&FuncV{Fn: read, Name: read.String()}, []Value{r.V, bs}, "os.File.ReadFrom").(TupleV)
				n, okN := e.concInt(res[0].(*Term), niInt)
				if !okN {
					e.ooe("ReadFrom: symbolic read count")
				}
				if n > 0 {
					wr := write(e, fn, []Value{a[0], SliceV{Arr: buf, Off: 0, Len: int(n), Cap: 64}}).(TupleV)
					total += int(n)
					if iv, ok := wr[1].(IfaceV); ok && iv.T != nil {
						return TupleV{e.intConst(basicInfoMust(types.Typ[types.Int64]), int64(total)), wr[1]}
					}
				}
				if iv, ok := res[1].(IfaceV); ok && iv.T != nil {
					if e.sameError(res[1], eof) {
						return TupleV{e.intConst(basicInfoMust(types.Typ[types.Int64]), int64(total)), e.zero(errT)}
					}
					return TupleV{e.intConst(basicInfoMust(types.Typ[types.Int64]), int64(total)), res[1]}
				}
			}
			e.abort("bound-exceeded", "ReadFrom: more than 4096 reads")
			return nil
		})
	})
}

func basicInfoMust(t types.Type) numInfo {
	ni, _ := basicInfo(t.Underlying().(*types.Basic))
	return ni
}

// sameError: identity of two error values (pointer identity of the dynamic value).
func (e *Exec) sameError(a, b Value) bool {
	x, ok1 := a.(IfaceV)
	y, ok2 := b.(IfaceV)
	if !ok1 || !ok2 || x.T == nil || y.T == nil {
		return false
	}
	px, ok1 := x.V.(Ptr)
	py, ok2 := y.V.(Ptr)
	return ok1 && ok2 && px.L != nil && px.L == py.L
}

func init() {
	extraIntrinsics = append(extraIntrinsics, func(w *World) {
		// filepath.Glob on the file-system model: patterns of the form <dir>/<glob> where
		// only the last component contains metacharacters (matched with path.Match);
		// results sorted, as package filepath returns them.
		w.reg("path/filepath.Glob", func(e *Exec, fn *ssa.Function, a []Value) Value {
			errT := types.Universe.Lookup("error").Type()
			pat := cleanPath(e.argStr(a[0], "glob pattern"))
			dir, last := parentDir(pat), pat
			if i := strings.LastIndex(pat, "/"); i >= 0 {
				last = pat[i+1:]
			}
			if strings.ContainsAny(dir, "*?[") {
				e.ooe("filepath.Glob with metacharacters in a directory component: %q", pat)
			}
			var names []string
			for p, f := range e.fsm().files {
				if f.isDir || parentDir(p) != dir {
					continue
				}
				base := p[strings.LastIndex(p, "/")+1:]
				if ok, err := gopath.Match(last, base); err == nil && ok {
					names = append(names, p)
				}
			}
			sort.Strings(names)
			strT := types.Typ[types.String]
			arr := e.newArrayLoc(strT, len(names))
			for i, n := range names {
				arr.Kids[i].V = e.strConst(n)
			}
			sl := SliceV{}
			if len(names) > 0 {
				sl = SliceV{Arr: arr, Off: 0, Len: len(names), Cap: len(names)}
			}
			return TupleV{sl, e.zero(errT)}
		})
	})
}
