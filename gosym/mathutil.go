package gosym

import (
	"math"
	"math/big"
	"strconv"
)

type bigFloat = big.Float

func mathIsNaN(f float64) bool   { return math.IsNaN(f) }
func mathIsInf(f float64) bool   { return math.IsInf(f, 0) }
func mathTrunc(f float64) float64 { return math.Trunc(f) }

func strconvParseFloat(s string, bits int) (float64, error) { return strconv.ParseFloat(s, bits) }
func itoa(n int) string                                     { return strconv.Itoa(n) }
