package gosym

import (
	"sync"
	"bufio"
	"encoding/json"
	"flag"
	"fmt"
	"golang.org/x/tools/go/ssa"
	"os"
	"path/filepath"
	"sort"
	"strconv"
	"strings"
	"time"
)

// Config of one property check: a list of harness runs.
type Config struct {
	Property    string            `json:"property"`
	Assumptions []string          `json:"assumptions"`
	Outside     []string          `json:"outside"`
	Runs        []RunCfg          `json:"runs"`
	Overlays    map[string]string `json:"overlays"` // repo-relative target -> file relative to config dir
}

type RunCfg struct {
	Name     string            `json:"name"`
	Pkg      string            `json:"pkg"`
	Fn       string            `json:"fn"`
	Mode     string            `json:"mode"`
	Tiers    []string          `json:"tiers"` // default both
	Params   map[string]string `json:"params"`
	Thorough map[string]string `json:"thorough_params"`
	Unwind   int               `json:"unwind"`
	MaxPreempt int             `json:"max_preemptions"`
	MaxSteps int               `json:"max_steps"`
	Bounds   string            `json:"bounds"`
	BoundsT  string            `json:"bounds_thorough"`
	Tags     []string          `json:"tags"`
	MapOrder bool              `json:"map_order_both"`
	Expect   []string          `json:"expect_reach"`
	TimeoutS int               `json:"timeout_s"`
	QueryMs  int               `json:"query_ms"`
	Stubs    map[string]string `json:"stubs"`
	Replay   string            `json:"replay"` // "" (native) | "none"
	ReplayWhy string           `json:"replay_why"`
}

type KnownFinding struct {
	Status   string `json:"status"` // open | fixed
	Property string `json:"property"`
	ID       string `json:"id"`
	What     string `json:"what"`
	Commit   string `json:"commit,omitempty"`
}

func loadKnown(path string) (open map[string]KnownFinding, all []KnownFinding) {
	open = map[string]KnownFinding{}
	f, err := os.Open(path)
	if err != nil {
		return
	}
	defer f.Close()
	sc := bufio.NewScanner(f)
	sc.Buffer(make([]byte, 1<<20), 1<<20)
	for sc.Scan() {
		l := strings.TrimSpace(sc.Text())
		if l == "" || strings.HasPrefix(l, "#") {
			continue
		}
		var k KnownFinding
		if json.Unmarshal([]byte(l), &k) == nil {
			all = append(all, k)
			if k.Status == "open" {
				open[k.ID] = k
			}
		}
	}
	return
}

type runReport struct {
	Name         string              `json:"name"`
	Pkg          string              `json:"pkg"`
	Fn           string              `json:"fn"`
	Mode         string              `json:"mode"`
	Bounds       string              `json:"bounds"`
	Params       map[string]string   `json:"params,omitempty"`
	Paths        int                 `json:"paths"`
	Done         int                 `json:"paths_completed"`
	Infeasible   int                 `json:"paths_infeasible"`
	Branches     int                 `json:"solver_decided_branches"`
	Choices      int                 `json:"engine_enumerated_decisions"`
	Queries      int                 `json:"solver_queries"`
	Obligations  int                 `json:"obligations"`
	Discharged   int                 `json:"discharged_unsat"`
	Inconclusive int                 `json:"inconclusive"`
	OOE          int                 `json:"out_of_encoding_paths"`
	BoundExc     int                 `json:"bound_exceeded_paths"`
	Errors       int                 `json:"engine_errors"`
	Violations   int                 `json:"violations"`
	Known        map[string]int      `json:"known_findings,omitempty"`
	Reached      map[string]int      `json:"reach_witnesses"`
	SolverS      float64             `json:"solver_time_s"`
	WallS        float64             `json:"wall_s"`
	LoadS        float64             `json:"load_s"`
	Packages     int                 `json:"packages_loaded"`
	Msgs         map[string]int      `json:"messages,omitempty"`
	Samples      []map[string]string `json:"samples,omitempty"`
	CrossChecked int                 `json:"cross_checked_obligations,omitempty"`
	CrossDis     int                 `json:"cross_check_disagreements,omitempty"`
	ReplayOK     int                 `json:"replays_confirmed,omitempty"`
	ReplayFail   int                 `json:"replays_not_reproduced,omitempty"`
	Truncated    bool                `json:"truncated,omitempty"`
	Retries      int                 `json:"solver_unknown_retried_in_fresh_context,omitempty"`
	RetriesOK    int                 `json:"solver_unknown_decided_by_retry,omitempty"`
	WitnessOK    int                 `json:"witness_paths_replayed_natively_ok,omitempty"`
	WitnessBad   int                 `json:"witness_paths_native_disagrees,omitempty"`
}

// witJob: one reachability witness (the model at the end of a completed path) to
// be run natively; the native harness must pass on it.
type witJob struct {
	rep    int
	rc     RunCfg
	params map[string]string
	inputs map[string]string
}

func Main(args []string) int {
	fs := flag.NewFlagSet("gosym", flag.ContinueOnError)
	cfgPath := fs.String("config", "", "property config (harness/<id>/config.json)")
	tier := fs.String("tier", "quick", "quick | thorough")
	repo := fs.String("repo", "/repo", "repository root")
	verifDir := fs.String("verif", "/verif", "verif root")
	only := fs.String("run", "", "only the run with this name")
	workers := fs.Int("workers", 0, "worker count (default: NumCPU)")
	noReplay := fs.Bool("no-replay", false, "skip native replay of counterexamples")
	noEvidence := fs.Bool("no-evidence", false, "do not write the evidence file")
	noWitness := fs.Bool("no-witness", false, "skip native replay of reachability witnesses")
	verbose := fs.Bool("v", false, "verbose")
	maxPaths := fs.Int("max-paths", 0, "stop after this many paths (inconclusive)")
	replayFile := fs.String("replay", "", "replay a stored counterexample file natively")
	prefixFlag := fs.String("prefix", "", "debugging: comma-separated engine decision prefix to explore below (use with -run)")
	if err := fs.Parse(args); err != nil {
		return 2
	}
	// the go tool used for loading and replay must be >= the repo's go directive
	os.Setenv("PATH", "/opt/veriftools/go1.26.8/bin:"+os.Getenv("PATH"))
	os.Setenv("GOFLAGS", "-mod=mod")
	os.Setenv("GOPROXY", "off")
	os.Setenv("GOTOOLCHAIN", "local")
	if env := os.Getenv("VERIF_TIER"); env != "" && !isFlagSet(fs, "tier") {
		*tier = env
	}
	seed := 0
	if s := os.Getenv("VERIF_SEED"); s != "" {
		seed, _ = strconv.Atoi(s)
	}
	if *replayFile != "" {
		return replayMain(*replayFile, *repo, *verifDir)
	}
	if *cfgPath == "" {
		fmt.Fprintln(os.Stderr, "usage: gosym -config harness/<id>/config.json [-tier quick|thorough]")
		return 2
	}
	raw, err := os.ReadFile(*cfgPath)
	if err != nil {
		fmt.Fprintln(os.Stderr, err)
		return 2
	}
	var cfg Config
	if err := json.Unmarshal(raw, &cfg); err != nil {
		fmt.Fprintln(os.Stderr, "config:", err)
		return 2
	}
	cfgDir := filepath.Dir(*cfgPath)
	t0 := time.Now()
	knownOpen, knownAll := loadKnown(filepath.Join(*verifDir, "known_findings.jsonl"))
	openIDs := map[string]bool{}
	for id, k := range knownOpen {
		if k.Property == cfg.Property {
			openIDs[id] = true
		}
	}
	_ = knownAll

	// overlay: the verif API package plus the harness files
	overlay := map[string][]byte{}
	apiSrc, err := os.ReadFile(filepath.Join(*verifDir, "harness", "zzverif", "verif.go"))
	if err != nil {
		fmt.Fprintln(os.Stderr, err)
		return 2
	}
	overlay[filepath.Join(*repo, "internal", "zzverif", "verif.go")] = apiSrc
	for target, src := range cfg.Overlays {
		b, err := os.ReadFile(filepath.Join(cfgDir, src))
		if err != nil {
			fmt.Fprintln(os.Stderr, err)
			return 2
		}
		overlay[filepath.Join(*repo, target)] = b
	}

	var reports []runReport
	var wits []witJob
	replaySeq := 0
	exit := 0
	totalViol := 0
	var violLines []string
	var knownLines []string
	inconclusive := false
	stubs := map[string]bool{}
	encoded := map[string]bool{}
	worlds := map[string]*World{}
	for _, rc := range cfg.Runs {
		if *only != "" && rc.Name != *only {
			continue
		}
		if len(rc.Tiers) > 0 && !contains(rc.Tiers, *tier) {
			continue
		}
		params := map[string]string{}
		for k, v := range rc.Params {
			params[k] = v
		}
		bounds := rc.Bounds
		if *tier == "thorough" {
			for k, v := range rc.Thorough {
				params[k] = v
			}
			if rc.BoundsT != "" {
				bounds = rc.BoundsT
			}
		}
		orders := []bool{false}
		if rc.MapOrder {
			orders = []bool{false, true}
		}
		for _, rev := range orders {
			opts := Options{RepoDir: *repo, Pkg: rc.Pkg, Overlay: overlay, Tags: append([]string{"verif"}, rc.Tags...),
				Harness: rc.Fn, Mode: rc.Mode, Workers: *workers, Unwind: rc.Unwind, MaxPreempt: rc.MaxPreempt, MaxSteps: rc.MaxSteps,
				KeepSamples: 3, KnownOpen: openIDs, Params: params, MapOrderReverse: rev, MaxPaths: *maxPaths,
				CrossCheck: *tier == "thorough", QueryTimeoutMs: rc.QueryMs, Stubs: rc.Stubs}
			if *tier == "thorough" && opts.QueryTimeoutMs == 0 {
				opts.QueryTimeoutMs = 120000
			}
			// engine self-test only: force solver timeouts to exercise the unknown paths
			if ms, err := strconv.Atoi(os.Getenv("GOSYM_FORCE_QUERY_MS")); err == nil && ms > 0 {
				opts.QueryTimeoutMs = ms
			}
			if *prefixFlag != "" {
				for _, x := range strings.Split(*prefixFlag, ",") {
					v, _ := strconv.ParseInt(strings.TrimSpace(x), 10, 64)
					opts.StartPrefix = append(opts.StartPrefix, v)
				}
			}
			if rc.TimeoutS > 0 {
				opts.Budget = time.Duration(rc.TimeoutS) * time.Second
			}
			key := rc.Pkg + "|" + strings.Join(opts.Tags, ",")
			w, ok := worlds[key]
			if !ok {
				w, err = Load(opts)
				if err != nil {
					fmt.Fprintf(os.Stderr, "LOAD-ERROR run=%s: %v\n", rc.Name, err)
					inconclusive = true
					reports = append(reports, runReport{Name: rc.Name, Pkg: rc.Pkg, Fn: rc.Fn, Msgs: map[string]int{"load error: " + err.Error(): 1}})
					continue
				}
				worlds[key] = w
			} else {
				w.Opts = opts
				w.registerIntrinsics()
				w.fnNames = map[*ssa.Function]*fnMeta{}
				w.Opts.Workers = w.Opts.Workers
				if w.Opts.Workers <= 0 {
					w.Opts.Workers = 16
				}
				if w.Opts.MaxSteps == 0 {
					w.Opts.MaxSteps = 5_000_000
				}
				if w.Opts.QueryTimeoutMs == 0 {
					w.Opts.QueryTimeoutMs = 20000
				}
				w.Harness = w.Main.Func(rc.Fn)
				if w.Harness == nil {
					fmt.Fprintf(os.Stderr, "LOAD-ERROR run=%s: harness %s not found\n", rc.Name, rc.Fn)
					inconclusive = true
					continue
				}
			}
			sum := w.Explore()
			rep := runReport{Name: rc.Name, Pkg: rc.Pkg, Fn: rc.Fn, Mode: opts.Mode, Bounds: bounds, Params: params,
				Paths: sum.Paths, Done: sum.Done, Infeasible: sum.Infeasible, Branches: sum.Branches, Choices: sum.Choices, Queries: sum.Queries,
				Obligations: sum.Obligations, Discharged: sum.Discharged, Inconclusive: sum.Inconclusive,
				OOE: sum.OOE, BoundExc: sum.BoundExceeded, Errors: sum.Errors, Known: sum.Known, Reached: sum.Reached,
				SolverS: sum.SolverTime.Seconds(), WallS: sum.Wall.Seconds(), LoadS: w.LoadTime.Seconds(), Packages: w.NPackages,
				Msgs: sum.Msgs, Samples: sum.Samples, Truncated: sum.Truncated,
				Retries: sum.Retries, RetriesOK: sum.RetriesResolved}
			if sum.Retries > 0 {
				fmt.Printf("  (run %s: %d solver 'unknown' answers retried in a fresh context, %d decided by the retry)\n", rc.Name, sum.Retries, sum.RetriesResolved)
			}
			if rev {
				rep.Name += "/map-order-reversed"
			}
			for k := range sum.Stubs {
				stubs[k] = true
			}
			for k := range sum.Encoded {
				encoded[k] = true
			}
			// cross-check discharged obligations with other solvers (thorough)
			if opts.CrossCheck {
				rep.CrossChecked, rep.CrossDis = w.crossCheckAll()
				if rep.CrossDis > 0 {
					inconclusive = true
				}
			}
			// violations: replay natively before reporting
			perMsg := map[string]int{}
			for _, v := range sum.Violations {
				perMsg[v.Msg]++
				if perMsg[v.Msg] > 2 {
					continue // same assertion: two replayed counterexamples are enough
				}
				replaySeq++
				path := writeReplay(*verifDir, cfg.Property, rc, params, v, replaySeq)
				confirmed := true
				why := ""
				if rc.Replay == "none" {
					// the run replaces real callees by observation points (call: stubs), so
					// the harness cannot run natively; the solver's inputs are reported as is
					fmt.Printf("  (run %s: engine-only counterexample, native replay not available: %s)\n", rc.Name, rc.ReplayWhy)
				} else if !*noReplay {
					confirmed, why = nativeReplay(*repo, *verifDir, cfgDir, cfg, rc, path)
				}
				if confirmed {
					rep.ReplayOK++
					rep.Violations++
					totalViol++
					violLines = append(violLines, fmt.Sprintf("VIOLATION property=%s replay=%s", cfg.Property, path))
					fmt.Printf("  counterexample run=%s: %s inputs=%v\n", rc.Name, v.Msg, v.Inputs)
				} else {
					rep.ReplayFail++
					inconclusive = true
					fmt.Printf("INCONCLUSIVE property=%s run=%s: solver model did not reproduce natively (%s): %s inputs=%v\n", cfg.Property, rc.Name, why, v.Msg, v.Inputs)
				}
			}
			for id, n := range sum.Known {
				if n > 0 {
					knownLines = append(knownLines, fmt.Sprintf("KNOWN-FINDING: property=%s %s (%s; run %s)", cfg.Property, id, knownOpen[id].What, rc.Name))
				}
			}
			if sum.Inconclusive > 0 || sum.OOE > 0 || sum.BoundExceeded > 0 || sum.Errors > 0 || sum.Truncated {
				inconclusive = true
			}
			for _, lbl := range rc.Expect {
				if sum.Reached[lbl] == 0 {
					inconclusive = true
					rep.Msgs["VACUOUS: reach label "+lbl+" has no witness"]++
				}
			}
			if sum.Done == 0 {
				inconclusive = true
				rep.Msgs["VACUOUS: no path completed"]++
			}
			reports = append(reports, rep)
			if rc.Replay != "none" && !*noReplay && !*noWitness && !rev {
				nw := 1
				if *tier == "thorough" {
					nw = 3
				}
				for _, smp := range sum.Samples {
					if nw == 0 {
						break
					}
					usable := len(smp) > 0
					for _, v := range smp {
						if v == "?" {
							usable = false // value depends on an uninterpreted function: no native counterpart
						}
					}
					if usable {
						wits = append(wits, witJob{rep: len(reports) - 1, rc: rc, params: params, inputs: smp})
						nw--
					}
				}
			}
			if *verbose || true {
				fmt.Printf("run %-28s paths=%d done=%d infeasible=%d branches=%d queries=%d obligations=%d discharged=%d inconclusive=%d ooe=%d bound=%d err=%d viol=%d known=%d wall=%.1fs solver=%.1fs\n",
					rep.Name, rep.Paths, rep.Done, rep.Infeasible, rep.Branches, rep.Queries, rep.Obligations, rep.Discharged,
					rep.Inconclusive, rep.OOE, rep.BoundExc, rep.Errors, rep.Violations, len(rep.Known), rep.WallS, rep.SolverS)
				var ms []string
				for m, n := range rep.Msgs {
					ms = append(ms, fmt.Sprintf("   [%d×] %s", n, m))
				}
				sort.Strings(ms)
				for i, m := range ms {
					if i > 12 {
						break
					}
					fmt.Println(m)
				}
				for y, n := range sum.InconclusiveWhy {
					fmt.Printf("   [inconclusive %d×] %s\n", n, y)
				}
			}
		}
	}
	// Translation check: the engine's own witnesses (inputs of completed paths on
	// which every assertion was discharged or assumed) are run natively against the
	// real build; the native harness must pass on each of them.
	if len(wits) > 0 {
		wdir, err := os.MkdirTemp("", "gosym-witness-")
		if err == nil {
			type wres struct {
				i               int
				verdict, detail string
			}
			runOne := func(i int) wres {
				wj := wits[i]
				path := filepath.Join(wdir, fmt.Sprintf("w%d.json", i))
				rf := ReplayFile{Property: cfg.Property, Run: wj.rc.Name, Pkg: wj.rc.Pkg, Fn: wj.rc.Fn, Mode: wj.rc.Mode,
					Kind: "witness", Msg: "reachability witness", Inputs: wj.inputs, Params: wj.params}
				b, _ := json.MarshalIndent(rf, "", " ")
				os.WriteFile(path, b, 0o644)
				var verdict, detail string
				for try := 0; try < 3; try++ {
					verdict, detail, _ = nativeRun(*repo, *verifDir, cfgDir, cfg, wj.rc, path)
					// anything but OK is retried: natively Go's map iteration order and the
					// scheduler are not under the engine's control; a deterministic
					// disagreement survives the retries
					if verdict == "OK" {
						break
					}
				}
				return wres{i, verdict, detail}
			}
			results := make([]wres, len(wits))
			results[0] = runOne(0) // compiles the test binary once; the rest hit the build cache
			var wg sync.WaitGroup
			sem := make(chan struct{}, 4)
			for i := 1; i < len(wits); i++ {
				wg.Add(1)
				go func(i int) {
					defer wg.Done()
					sem <- struct{}{}
					results[i] = runOne(i)
					<-sem
				}(i)
			}
			wg.Wait()
			nok := 0
			for _, r := range results {
				wj := wits[r.i]
				if r.verdict == "OK" {
					reports[wj.rep].WitnessOK++
					nok++
					continue
				}
				reports[wj.rep].WitnessBad++
				inconclusive = true
				fmt.Printf("WITNESS-MISMATCH property=%s run=%s: the engine completed this path with every assertion holding, the native run says %s; inputs=%v %s\n",
					cfg.Property, wj.rc.Name, r.verdict, wj.inputs, strings.ReplaceAll(r.detail, "\n", " | "))
			}
			fmt.Printf("witnesses: %d of %d engine paths replayed natively with the same verdict (pass)\n", nok, len(wits))
			os.RemoveAll(wdir)
		}
	}
	sort.Strings(knownLines)
	knownLines = uniq(knownLines)
	for _, l := range knownLines {
		fmt.Println(l)
	}
	for _, l := range violLines {
		fmt.Println(l)
	}
	if totalViol > 0 {
		exit = 1
	} else if inconclusive {
		fmt.Printf("INCONCLUSIVE property=%s (out-of-encoding, bound exceeded, solver unknown, vacuous or engine error: see messages)\n", cfg.Property)
		exit = 2
	}
	if !*noEvidence {
		writeEvidence(*verifDir, cfg, *tier, seed, reports, stubs, encoded, totalViol, knownLines, time.Since(t0), exit)
	}
	if exit == 0 {
		fmt.Printf("OK property=%s tier=%s: held on everything explored (within the stated bounds)\n", cfg.Property, *tier)
	}
	return exit
}

func isFlagSet(fs *flag.FlagSet, name string) bool {
	set := false
	fs.Visit(func(f *flag.Flag) {
		if f.Name == name {
			set = true
		}
	})
	return set
}

func contains(xs []string, s string) bool {
	for _, x := range xs {
		if x == s {
			return true
		}
	}
	return false
}

func uniq(xs []string) []string {
	var out []string
	for i, x := range xs {
		if i == 0 || x != xs[i-1] {
			out = append(out, x)
		}
	}
	return out
}

func writeEvidence(verifDir string, cfg Config, tier string, seed int, reports []runReport, stubs, encoded map[string]bool, viol int, known []string, wall time.Duration, exit int) {
	states, transitions, obligations, discharged, inconc, validated := 0, 0, 0, 0, 0, 0
	var samples []interface{}
	var solverS float64
	var bounds []string
	for _, r := range reports {
		states += r.Done
		transitions += r.Branches + r.Choices
		obligations += r.Obligations
		discharged += r.Discharged
		inconc += r.Inconclusive + r.OOE + r.BoundExc + r.Errors
		validated += r.ReplayOK + r.WitnessOK
		solverS += r.SolverS
		for _, s := range r.Samples {
			if len(samples) < 12 {
				samples = append(samples, map[string]interface{}{"run": r.Name, "reachability_witness_inputs": s})
			}
		}
		if r.Bounds != "" {
			bounds = append(bounds, r.Name+": "+r.Bounds)
		}
	}
	if len(samples) == 0 {
		samples = append(samples, map[string]interface{}{"note": "no path produced a model sample"})
	}
	var st, en []string
	for k := range stubs {
		st = append(st, k)
	}
	for k := range encoded {
		en = append(en, k)
	}
	sort.Strings(st)
	sort.Strings(en)
	if len(en) > 400 {
		en = append(en[:400], fmt.Sprintf("… (%d more)", len(en)-400))
	}
	if len(st) > 200 {
		st = append(st[:200], fmt.Sprintf("… (%d more)", len(st)-200))
	}
	status := map[int]string{0: "held within bounds", 1: "violation", 2: "inconclusive"}[exit]
	ev := map[string]interface{}{
		"property_id": cfg.Property,
		"tier":        tier,
		"seed":        seed,
		"level":       "model_checking",
		"coverage": map[string]interface{}{
			"states":                        maxInt(states, 0),
			"transitions":                   transitions,
			"traces_validated_against_impl": validated,
			"samples":                       samples,
			"obligations":                   obligations,
			"discharged":                    discharged,
			"inconclusive":                  inconc,
			"exhaustive":                    false,
			"explanation":                   "bounded symbolic execution of the real functions (go/ssa built from /repo's working tree on this run) with z3 deciding every branch and assertion; states = symbolic paths run to completion, transitions = decision points on those paths: branch points decided by the solver (solver_decided_branches per run) plus points where the engine itself enumerates the alternatives - case splits, fault/crash choices, scheduler choices (engine_enumerated_decisions per run); the claim holds for every input within `bounds` and says nothing outside them; obligations - discharged = assertions that fail only inside a finding listed in known_findings.jsonl (each printed as KNOWN-FINDING; outside the finding's predicate the same assertion is discharged), anything else undischarged makes the run exit non-zero; traces_validated_against_impl = engine paths whose solver-chosen inputs were run natively (go test against the real build) with the verdict the engine predicted: reachability witnesses of completed paths (quick: 1 per run, thorough: 3) plus every reported counterexample",
			"bounds":                        bounds,
			"functions_encoded":             en,
			"stubs":                         st,
			"runs":                          reports,
			"solver":                        "z3 4.8.12 via one incremental process per worker (thorough: discharged obligations re-checked with z3 5.1.0 and cvc5 1.0)",
			"solver_time_s":                 solverS,
			"known_findings_reported":       known,
			"status":                        status,
			"outside_the_claim":             cfg.Outside,
		},
		"assumptions": cfg.Assumptions,
		"wall_s":      wall.Seconds(),
		"violations":  viol,
	}
	b, _ := json.MarshalIndent(ev, "", " ")
	os.MkdirAll(filepath.Join(verifDir, "evidence"), 0o755)
	os.WriteFile(filepath.Join(verifDir, "evidence", cfg.Property+".json"), b, 0o644)
}

func maxInt(a, b int) int {
	if a > b {
		return a
	}
	return b
}

func (w *World) crossCheckAll() (int, int) {
	w.crossMu.Lock()
	scripts := w.crossScripts
	w.crossScripts = nil
	w.crossMu.Unlock()
	// sample at most 40 scripts per run, evenly
	step := 1
	if len(scripts) > 40 {
		step = len(scripts) / 40
	}
	n, dis := 0, 0
	for i := 0; i < len(scripts); i += step {
		s := scripts[i]
		n++
		r1 := RunExternal("z3-new", []string{"-T:60"}, s, 70*time.Second)
		r2 := RunExternal("cvc5", []string{"--tlimit=60000"}, s, 70*time.Second)
		if r1 == "sat" || r2 == "sat" {
			dis++
			fmt.Printf("CROSS-CHECK DISAGREEMENT: z3-new=%s cvc5=%s on an obligation z3 4.8.12 discharged\n", r1, r2)
		}
	}
	return n, dis
}
