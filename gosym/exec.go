package gosym

import (
	"fmt"
	"go/constant"
	"go/token"
	"go/types"
	"math/big"
	"strings"

	"golang.org/x/tools/go/ssa"
)

// ---- path control signals (host panics) ----

type pathEnd struct {
	Kind string // done | infeasible | out-of-encoding | bound-exceeded | harness-error | stop
	Msg  string
}

type goPanic struct {
	V         Value
	Msg       string
	recovered bool
	Pos       string
}

type frame struct {
	fn     *ssa.Function
	env    map[ssa.Value]Value
	defers []*deferred
	caller *frame
	visits map[*ssa.BasicBlock]int
	named  bool
}

type deferred struct {
	fn   *FuncV
	args []Value
	call *ssa.CallCommon
	recv Value
}

// Exec is the per-worker symbolic executor.
type Exec struct {
	W    *World
	tb   *TB
	sol  *Solver
	mode string // "bv" | "lia"

	// per-path state
	pcV       []*Term
	pendingV  []*Term
	prefixV   []int64
	trace     []int64
	model     Model // satisfies the path condition (nil = unknown)
	nBranches int
	nChoices  int
	nQueries  int
	nUnknown  int
	pathVars  []*Term
	threads   *threadSet
	known     []knownPred
	ufSeq     int
	steps     int
	maxSteps  int
	unwind    int
	locSeq    int
	varSeq    map[string]int
	named     []*Term // named symbolic inputs in creation order
	namedInfo []NamedVar
	globals   map[*ssa.Global]*Loc
	undo      []undoRec
	inited    map[*ssa.Package]bool
	curPanic  *goPanic
	depth     int
	clockLast *Term
	clockMono bool
	clockFirst *Term
	clockSpan  *Term
	clockN    int
	obs       []Observation
	reached   map[string]bool
	path      *PathResult
	forks     int
	initMode  bool
	stubs     map[string]bool
	encoded   map[string]bool
	env       map[string]Value // harness-level engine state (models)
	panicsAre string           // "violation" | "error"
	curFrame  *frame
	callStack []string
	strs      map[string]*StrV
	locks     map[*Loc]*lockState
	fs        *fsState
	crcBuf    map[*Loc][]*Term
	largeAlloc int
	clockFixed *Term
	jsonBlobs  map[*Loc]*jsonBlob
	opaqueBytes map[*Opaque]*Term
	marshalKind string
	timeFmtDigits bool
	pendingGo []pendingGo
}

type knownPred struct {
	id   string
	pred *Term
}

type NamedVar struct {
	Name string
	Kind string // int64, byte, bool, bytes, string, time, choice, ...
	Term *Term
	N    int
	Bytes []*Term
}

type Observation struct {
	Tag  string
	Vals []Value
}

func (e *Exec) abort(kind, f string, a ...interface{}) {
	panic(&pathEnd{Kind: kind, Msg: fmt.Sprintf(f, a...)})
}

func (e *Exec) ooe(f string, a ...interface{}) {
	msg := fmt.Sprintf(f, a...)
	if e.initMode {
		panic(&initOOE{msg})
	}
	where := ""
	if len(e.callStack) > 0 {
		n := len(e.callStack)
		lo := n - 4
		if lo < 0 {
			lo = 0
		}
		where = " in " + strings.Join(e.callStack[lo:], " > ")
	}
	panic(&pathEnd{Kind: "out-of-encoding", Msg: msg + where})
}

type initOOE struct{ msg string }

// goPanicf raises a Go-level run-time panic inside the interpreted program.
func (e *Exec) goPanicf(f string, a ...interface{}) {
	msg := fmt.Sprintf(f, a...)
	pos := ""
	if len(e.callStack) > 0 {
		pos = e.callStack[len(e.callStack)-1]
	}
	panic(&goPanic{V: IfaceV{T: types.Typ[types.String], V: e.strConst("runtime error: " + msg)}, Msg: msg, Pos: pos})
}

// ---- integer constants by mode ----

func (e *Exec) intConst(ni numInfo, v int64) *Term {
	return e.intConstBig(ni, big.NewInt(v))
}

func (e *Exec) intConstBig(ni numInfo, v *big.Int) *Term {
	if e.mode == "lia" {
		x := normU(v, ni.W)
		if ni.Signed {
			x = toSigned(x, ni.W)
		}
		return e.tb.Int(x)
	}
	return e.tb.BV(ni.W, v)
}

func (e *Exec) intSort(ni numInfo) Sort {
	if e.mode == "lia" {
		return SInt
	}
	return SBV(ni.W)
}

var niInt = numInfo{W: 64, Signed: true, Int: true}
var niByte = numInfo{W: 8, Int: true}
var niUint64 = numInfo{W: 64, Int: true}
var niInt32 = numInfo{W: 32, Signed: true, Int: true}

func (e *Exec) mkInt(v int) *Term { return e.intConst(niInt, int64(v)) }

func (e *Exec) byteConst(b byte) *Term { return e.intConst(niByte, int64(b)) }

func (e *Exec) strConst(s string) *StrV {
	if c, ok := e.W.strCache(e, s); ok {
		return c
	}
	b := make([]*Term, len(s))
	for i := 0; i < len(s); i++ {
		b[i] = e.byteConst(s[i])
	}
	return &StrV{B: b}
}

// concInt returns the concrete value of an integer term (signed interpretation
// according to ni) if it is constant.
func (e *Exec) concInt(t *Term, ni numInfo) (int64, bool) {
	if !t.Const {
		return 0, false
	}
	if t.S.K == KInt {
		if t.I.IsInt64() {
			return t.I.Int64(), true
		}
		if t.I.IsUint64() {
			return int64(t.I.Uint64()), true
		}
		return 0, false
	}
	if ni.Signed {
		return toSigned(t.I, t.S.W).Int64(), true
	}
	if t.I.IsInt64() {
		return t.I.Int64(), true
	}
	return int64(t.I.Uint64()), true
}

// ---- constants ----

func (e *Exec) constValue(c *ssa.Const) Value {
	t := c.Type()
	if c.Value == nil {
		return e.zero(t)
	}
	ni, ok := basicInfo(t)
	if !ok {
		// e.g. named non-basic with constant value? not possible
		panic(fmt.Sprintf("const of type %v", t))
	}
	switch {
	case ni.Bool:
		return e.tb.Bool(constant.BoolVal(c.Value))
	case ni.Str:
		return e.strConst(constant.StringVal(c.Value))
	case ni.Int:
		v := constant.ToInt(c.Value)
		bi, ok := constant.Val(v).(*big.Int)
		if !ok {
			i64, _ := constant.Int64Val(v)
			bi = big.NewInt(i64)
			if u, exact := constant.Uint64Val(v); exact && !ni.Signed {
				bi = new(big.Int).SetUint64(u)
			}
		}
		return e.intConstBig(ni, bi)
	case ni.Float:
		f, _ := constant.Float64Val(c.Value)
		return e.tb.FP(ni.W, f)
	}
	panic("constValue")
}

// ---- operand fetch ----

func (e *Exec) get(fr *frame, v ssa.Value) Value {
	switch x := v.(type) {
	case *ssa.Const:
		return e.constValue(x)
	case *ssa.Global:
		return Ptr{L: e.globalLoc(x)}
	case *ssa.Function:
		return &FuncV{Fn: x}
	case *ssa.Builtin:
		return &FuncV{Builtin: x}
	}
	val, ok := fr.env[v]
	if !ok {
		panic(fmt.Sprintf("get: no value for %s (%T) in %s", v.Name(), v, fr.fn))
	}
	return val
}

// ---- function calls ----

const maxDepth = 400

func (e *Exec) callFunc(fv *FuncV, args []Value, site string) Value {
	if fv == nil {
		e.goPanicf("invalid memory address or nil pointer dereference (nil func call)")
	}
	if fv.Native != nil {
		return fv.Native(e, args)
	}
	if fv.Builtin != nil {
		return e.callBuiltin(fv.Builtin, args, nil)
	}
	fn := fv.Fn
	if e.initMode && e.depth > 0 && fn.Synthetic == "package initializer" {
		// dependencies are initialised lazily, when one of their globals is touched
		return nil
	}
	name := fn.String()
	if in, ok := e.W.intrinsic(fn, name); ok {
		if e.stubs != nil && !e.initMode {
			e.stubs[name] = true
		}
		return in(e, fn, args)
	}
	e.W.ensureBuilt(fn)
	if fn.Blocks == nil {
		e.ooe("call to function without body: %s", name)
	}
	if e.depth > maxDepth {
		e.abort("bound-exceeded", "call depth > %d at %s", maxDepth, name)
	}
	if e.encoded != nil && !e.initMode {
		e.encoded[name] = true
	}
	fr := &frame{fn: fn, env: make(map[ssa.Value]Value, 16)}
	// harness code (Verif*/verif* functions and their closures) is exempt from
	// the unwinding bound: its loops are concrete by construction.
	if hn := fn.Name(); strings.HasPrefix(hn, "Verif") || strings.HasPrefix(hn, "verif") {
		fr.named = true
	}
	// the unwinding assertion guards loops of the code under test; std and
	// third-party loops run over concrete lengths and are bounded by max_steps
	// (also reported as bound-exceeded, never silently truncated).
	if e.unwind > 0 && !fr.named {
		if pk := fn.Package(); pk == nil || pk.Pkg == nil || !strings.HasPrefix(pk.Pkg.Path(), "github.com/basekick-labs/arc") {
			fr.named = true
		}
	}
	for i, p := range fn.Params {
		if i < len(args) {
			fr.env[p] = args[i]
		} else {
			panic(fmt.Sprintf("call %s: %d args for %d params", name, len(args), len(fn.Params)))
		}
	}
	for i, f := range fn.FreeVars {
		fr.env[f] = fv.Free[i]
	}
	e.depth++
	e.callStack = append(e.callStack, name)
	defer func() {
		e.depth--
		e.callStack = e.callStack[:len(e.callStack)-1]
	}()
	return e.runFrame(fr)
}

func (e *Exec) runFrame(fr *frame) (result Value) {
	// panic handling: run deferred calls, honour recover()
	defer func() {
		r := recover()
		if r == nil {
			return
		}
		gp, ok := r.(*goPanic)
		if !ok {
			panic(r)
		}
		saved := e.curPanic
		e.curPanic = gp
		e.runDefers(fr)
		e.curPanic = saved
		if !gp.recovered {
			panic(gp)
		}
		// recovered: return via Recover block if present
		if fr.fn.Recover != nil {
			result = e.runBlocks(fr, fr.fn.Recover)
			return
		}
		res := fr.fn.Signature.Results()
		switch res.Len() {
		case 0:
			result = nil
		case 1:
			result = e.zero(res.At(0).Type())
		default:
			result = e.zero(res)
		}
	}()
	return e.runBlocks(fr, fr.fn.Blocks[0])
}

func (e *Exec) runDefers(fr *frame) {
	for len(fr.defers) > 0 {
		d := fr.defers[len(fr.defers)-1]
		fr.defers = fr.defers[:len(fr.defers)-1]
		e.callFunc(d.fn, d.args, "defer")
	}
}

func (e *Exec) runBlocks(fr *frame, start *ssa.BasicBlock) Value {
	block := start
	var prev *ssa.BasicBlock
	for {
		if e.unwind > 0 && !fr.named {
			if fr.visits == nil {
				fr.visits = map[*ssa.BasicBlock]int{}
			}
			fr.visits[block]++
			if fr.visits[block] > e.unwind {
				e.abort("bound-exceeded", "block %s.%d visited more than %d times (unwinding assertion)", fr.fn, block.Index, e.unwind)
			}
		}
		var next *ssa.BasicBlock
		for _, ins := range block.Instrs {
			e.steps++
			if e.steps > e.maxSteps {
				e.abort("bound-exceeded", "more than %d instructions on one path", e.maxSteps)
			}
			switch x := ins.(type) {
			case *ssa.Phi:
				_ = x
				continue // assigned by evalPhis on block entry
			case *ssa.If:
				c := e.get(fr, x.Cond).(*Term)
				if e.branch(c) {
					next = block.Succs[0]
				} else {
					next = block.Succs[1]
				}
			case *ssa.Jump:
				next = block.Succs[0]
			case *ssa.Return:
				switch len(x.Results) {
				case 0:
					return nil
				case 1:
					return e.get(fr, x.Results[0])
				default:
					tv := make(TupleV, len(x.Results))
					for i, r := range x.Results {
						tv[i] = e.get(fr, r)
					}
					return tv
				}
			case *ssa.Panic:
				v := e.get(fr, x.X)
				panic(&goPanic{V: v, Msg: e.describe(v), Pos: fr.fn.String()})
			default:
				if e.initMode {
					e.tolerantInstr(fr, ins)
				} else {
					e.instr(fr, ins)
				}
			}
		}
		if next == nil {
			panic(fmt.Sprintf("block %s.%d fell through", fr.fn, block.Index))
		}
		// phi nodes read their operands simultaneously: evaluate before assigning
		prev, block = block, next
		if len(block.Instrs) > 0 {
			if _, ok := block.Instrs[0].(*ssa.Phi); ok {
				e.evalPhis(fr, block, prev)
			}
		}
	}
}

// evalPhis evaluates all phis of block with parallel-assignment semantics.
func (e *Exec) evalPhis(fr *frame, block, prev *ssa.BasicBlock) {
	idx := -1
	for i, p := range block.Preds {
		if p == prev {
			idx = i
			break
		}
	}
	var vals []Value
	var phis []*ssa.Phi
	for _, ins := range block.Instrs {
		ph, ok := ins.(*ssa.Phi)
		if !ok {
			break
		}
		phis = append(phis, ph)
		vals = append(vals, e.get(fr, ph.Edges[idx]))
	}
	for i, ph := range phis {
		fr.env[ph] = vals[i]
	}
}

func (e *Exec) describe(v Value) string {
	switch x := v.(type) {
	case IfaceV:
		if x.T == nil {
			return "nil"
		}
		return e.describe(x.V)
	case *StrV:
		if s, ok := e.concStr(x); ok {
			return s
		}
		return "<symbolic string>"
	case *Term:
		return e.tb.Show(x)
	case Ptr:
		if x.L != nil && x.L.Comp {
			// error values built by errors.New / fmt.Errorf
			return fmt.Sprintf("&%v", x.L.Typ)
		}
	}
	return fmt.Sprintf("%T", v)
}

// ---- instructions ----

func (e *Exec) instr(fr *frame, ins ssa.Instruction) {
	switch x := ins.(type) {
	case *ssa.DebugRef:
	case *ssa.Alloc:
		fr.env[x] = Ptr{L: e.newLoc(x.Type().(*types.Pointer).Elem())}
	case *ssa.UnOp:
		fr.env[x] = e.unop(fr, x)
	case *ssa.BinOp:
		fr.env[x] = e.binop(x.Op, x.X.Type(), x.Y.Type(), e.get(fr, x.X), e.get(fr, x.Y))
	case *ssa.Store:
		p := e.get(fr, x.Addr).(Ptr)
		e.storePtr(p, e.get(fr, x.Val))
	case *ssa.FieldAddr:
		p := e.get(fr, x.X).(Ptr)
		if p.L == nil {
			e.goPanicf("invalid memory address or nil pointer dereference")
		}
		if !p.L.Comp {
			e.ooe("FieldAddr into abstract value of type %v", p.L.Typ)
		}
		fr.env[x] = Ptr{L: p.L.Kids[x.Field]}
	case *ssa.Field:
		v := e.get(fr, x.X)
		s, ok := v.(*StructV)
		if !ok {
			e.ooe("Field of %T (%v)", v, x.X.Type())
		}
		fr.env[x] = s.F[x.Field]
	case *ssa.IndexAddr:
		fr.env[x] = e.indexAddr(fr, x)
	case *ssa.Index:
		fr.env[x] = e.index(fr, x)
	case *ssa.Call:
		fr.env[x] = e.doCall(fr, &x.Call, x)
	case *ssa.Defer:
		fv, args := e.resolveCall(fr, &x.Call)
		fr.defers = append(fr.defers, &deferred{fn: fv, args: args})
	case *ssa.RunDefers:
		e.runDefers(fr)
	case *ssa.Go:
		e.doGo(fr, x)
	case *ssa.Extract:
		fr.env[x] = e.get(fr, x.Tuple).(TupleV)[x.Index]
	case *ssa.MakeInterface:
		fr.env[x] = IfaceV{T: x.X.Type(), V: e.get(fr, x.X)}
	case *ssa.ChangeInterface:
		fr.env[x] = e.get(fr, x.X)
	case *ssa.ChangeType:
		fr.env[x] = e.get(fr, x.X)
	case *ssa.Convert:
		fr.env[x] = e.convert(x.X.Type(), x.Type(), e.get(fr, x.X))
	case *ssa.TypeAssert:
		fr.env[x] = e.typeAssert(fr, x)
	case *ssa.MakeClosure:
		fv := &FuncV{Fn: x.Fn.(*ssa.Function)}
		for _, b := range x.Bindings {
			fv.Free = append(fv.Free, e.get(fr, b))
		}
		fr.env[x] = fv
	case *ssa.MakeSlice:
		lt := e.get(fr, x.Len).(*Term)
		var n, c int
		if e.largeAlloc > 0 && !lt.Const && x.Len == x.Cap {
			// harness-declared bound (verif.LargeAllocAs): a symbolic length above K is
			// modelled by one representative of K+1 elements
			lni, _ := basicInfo(x.Len.Type())
			k := e.intConst(lni, int64(e.largeAlloc))
			if e.branch(e.intCmp(token.GTR, lni, lt, k)) {
				n, c = e.largeAlloc+1, e.largeAlloc+1
				e.stubs["make([]T, n) with symbolic n above the declared bound: one representative length"] = true
			} else {
				n = e.concretizeInt(lt, "makeslice len")
				c = n
			}
		} else {
			n = e.concretizeInt(lt, "makeslice len")
			c = e.concretizeInt(e.get(fr, x.Cap).(*Term), "makeslice cap")
			if e.largeAlloc > 0 && n == c && n > e.largeAlloc {
				n, c = e.largeAlloc+1, e.largeAlloc+1
				e.stubs["make([]T, n) with n above the declared bound: one representative length"] = true
			}
		}
		if n < 0 || c < n {
			e.goPanicf("makeslice: len out of range")
		}
		if c > 1<<22 {
			e.ooe("make([]T, %d): too large for the encoding", c)
		}
		elem := x.Type().Underlying().(*types.Slice).Elem()
		fr.env[x] = SliceV{Arr: e.newArrayLoc(elem, c), Len: n, Cap: c}
	case *ssa.MakeMap:
		fr.env[x] = &MapV{Typ: x.Type().Underlying().(*types.Map)}
	case *ssa.MakeChan:
		n := e.concretizeInt(e.get(fr, x.Size).(*Term), "makechan")
		fr.env[x] = &ChanV{Cap: n}
	case *ssa.Slice:
		fr.env[x] = e.sliceOp(fr, x)
	case *ssa.Lookup:
		fr.env[x] = e.lookup(fr, x)
	case *ssa.MapUpdate:
		m := e.get(fr, x.Map).(*MapV)
		if m == nil {
			e.goPanicf("assignment to entry in nil map")
		}
		e.mapSet(m, e.get(fr, x.Key), e.get(fr, x.Value))
	case *ssa.Range:
		fr.env[x] = e.rangeInit(fr, x)
	case *ssa.Next:
		fr.env[x] = e.rangeNext(fr, x)
	case *ssa.Send:
		ch := e.get(fr, x.Chan).(*ChanV)
		e.chanSend(ch, e.get(fr, x.X), true)
	case *ssa.Select:
		fr.env[x] = e.selectOp(fr, x)
	case *ssa.SliceToArrayPointer:
		s := e.get(fr, x.X).(SliceV)
		n := int(x.Type().(*types.Pointer).Elem().Underlying().(*types.Array).Len())
		if s.Len < n {
			e.goPanicf("cannot convert slice with length %d to array or pointer to array with length %d", s.Len, n)
		}
		if s.Arr == nil {
			fr.env[x] = Ptr{}
		} else {
			view := &Loc{Comp: true, Kids: s.Arr.Kids[s.Off : s.Off+n], Typ: x.Type().(*types.Pointer).Elem(), id: e.newLocID()}
			fr.env[x] = Ptr{L: view}
		}
	case *ssa.MultiConvert:
		fr.env[x] = e.convert(x.X.Type(), x.Type(), e.get(fr, x.X))
	default:
		e.ooe("unsupported instruction %T at %s", ins, e.W.pos(ins.Pos()))
	}
}

func (e *Exec) storePtr(p Ptr, v Value) {
	if p.Arr != nil {
		e.symStore(p, v)
		return
	}
	if p.L == nil {
		e.goPanicf("invalid memory address or nil pointer dereference")
	}
	e.store(p.L, v)
}

func (e *Exec) loadPtr(p Ptr) Value {
	if p.Arr != nil {
		return e.symLoad(p)
	}
	if p.L == nil {
		e.goPanicf("invalid memory address or nil pointer dereference")
	}
	return e.load(p.L)
}

// symbolic-index element access over scalar arrays: ite chains.
func (e *Exec) symLoad(p Ptr) Value {
	var res *Term
	for i := p.N - 1; i >= 0; i-- {
		cell, ok := p.Arr.Kids[p.Off+i].V.(*Term)
		if !ok {
			e.ooe("symbolic index into non-scalar array")
		}
		if res == nil {
			res = cell
			continue
		}
		res = e.tb.Ite(e.tb.Eq(p.Idx, e.idxConst(p.Idx, i)), cell, res)
	}
	return res
}

func (e *Exec) symStore(p Ptr, v Value) {
	nv, ok := v.(*Term)
	if !ok {
		e.ooe("symbolic index store of non-scalar")
	}
	for i := 0; i < p.N; i++ {
		k := p.Arr.Kids[p.Off+i]
		old := k.V.(*Term)
		e.store(k, e.tb.Ite(e.tb.Eq(p.Idx, e.idxConst(p.Idx, i)), nv, old))
	}
}

func (e *Exec) idxConst(like *Term, i int) *Term {
	if like.S.K == KInt {
		return e.tb.Inti(int64(i))
	}
	return e.tb.BVi(like.S.W, int64(i))
}

func (e *Exec) unop(fr *frame, x *ssa.UnOp) Value {
	v := e.get(fr, x.X)
	switch x.Op {
	case token.MUL:
		val := e.loadPtr(v.(Ptr))
		return val
	case token.NOT:
		return e.tb.Not(v.(*Term))
	case token.SUB:
		ni, _ := basicInfo(x.X.Type())
		t := v.(*Term)
		if ni.Float {
			return e.tb.FPNeg(t)
		}
		return e.arith(token.SUB, ni, e.intConst(ni, 0), t)
	case token.XOR:
		ni, _ := basicInfo(x.X.Type())
		t := v.(*Term)
		if e.mode == "lia" {
			// ^x = -x-1 (signed) ; for unsigned 2^w-1-x
			if ni.Signed {
				return e.tb.ISub(e.tb.INeg(t), e.tb.Inti(1))
			}
			return e.tb.ISub(e.tb.Int(new(big.Int).Sub(pow2(ni.W), bigOne)), t)
		}
		return e.tb.BVNot(t)
	case token.ARROW:
		ch := v.(*ChanV)
		val, ok := e.chanRecv(ch, x.X.Type().Underlying().(*types.Chan).Elem(), true)
		if x.CommaOk {
			return TupleV{val, e.tb.Bool(ok)}
		}
		return val
	}
	e.ooe("unop %v", x.Op)
	return nil
}

func (e *Exec) resolveCall(fr *frame, c *ssa.CallCommon) (*FuncV, []Value) {
	var args []Value
	if c.IsInvoke() {
		recv := e.get(fr, c.Value)
		iv, ok := recv.(IfaceV)
		if !ok {
			e.ooe("invoke on %T", recv)
		}
		if iv.T == nil {
			e.goPanicf("invalid memory address or nil pointer dereference (method %s on nil interface)", c.Method.Name())
		}
		fn := e.W.lookupMethod(iv.T, c.Method)
		if fn == nil {
			e.ooe("no method %s on dynamic type %v", c.Method.Name(), iv.T)
		}
		args = append(args, iv.V)
		for _, a := range c.Args {
			args = append(args, e.get(fr, a))
		}
		return &FuncV{Fn: fn}, args
	}
	fvv := e.get(fr, c.Value)
	fv, ok := fvv.(*FuncV)
	if !ok {
		e.ooe("call of %T", fvv)
	}
	for _, a := range c.Args {
		args = append(args, e.get(fr, a))
	}
	return fv, args
}

func (e *Exec) doCall(fr *frame, c *ssa.CallCommon, site *ssa.Call) Value {
	if b, ok := c.Value.(*ssa.Builtin); ok {
		var args []Value
		for _, a := range c.Args {
			args = append(args, e.get(fr, a))
		}
		return e.callBuiltin(b, args, c)
	}
	fv, args := e.resolveCall(fr, c)
	saved := e.curFrame
	e.curFrame = fr
	r := e.callFunc(fv, args, "")
	e.curFrame = saved
	return r
}

func (e *Exec) typeAssert(fr *frame, x *ssa.TypeAssert) Value {
	v := e.get(fr, x.X)
	iv, ok := v.(IfaceV)
	if !ok {
		e.ooe("typeassert on %T", v)
	}
	okk := false
	var res Value
	if iv.T != nil {
		if types.IsInterface(x.AssertedType) {
			it := x.AssertedType.Underlying().(*types.Interface)
			if types.Implements(iv.T, it) {
				okk = true
				res = iv
			}
		} else if types.Identical(iv.T, x.AssertedType) {
			okk = true
			res = iv.V
		}
	}
	if x.CommaOk {
		if !okk {
			res = e.zero(x.AssertedType)
		}
		return TupleV{res, e.tb.Bool(okk)}
	}
	if !okk {
		dt := "nil"
		if iv.T != nil {
			dt = iv.T.String()
		}
		e.goPanicf("interface conversion: interface is %s, not %s", dt, x.AssertedType)
	}
	return res
}

// ---- indexing ----

func (e *Exec) checkIndex(idx *Term, ni numInfo, n int) (int, bool) {
	// returns concrete index if idx is constant; otherwise forks on the bounds
	// condition and returns (-1,false) with the in-range constraint added.
	if c, ok := e.concInt(idx, ni); ok {
		if c < 0 || c >= int64(n) {
			e.goPanicf("index out of range [%d] with length %d", c, n)
		}
		return int(c), true
	}
	in := e.inRange(idx, ni, n)
	if !e.branch(in) {
		e.goPanicf("index out of range [symbolic] with length %d", n)
	}
	return -1, false
}

func (e *Exec) inRange(idx *Term, ni numInfo, n int) *Term {
	if e.mode == "lia" {
		return e.tb.And(e.tb.ILe(e.tb.Inti(0), idx), e.tb.ILt(idx, e.tb.Inti(int64(n))))
	}
	// unsigned compare covers negative values for signed types
	w := idx.S.W
	if w < 63 && int64(n) >= int64(1)<<uint(w) {
		// every unsigned value of this width is below n
		if ni.Signed {
			return e.tb.Not(e.tb.bvCmp("bvslt", idx, e.tb.BVi(w, 0)))
		}
		return e.tb.True
	}
	return e.tb.bvCmp("bvult", idx, e.tb.BVi(w, int64(n)))
}

func (e *Exec) elemPtr(arr *Loc, off, n int, idx *Term, ni numInfo) Ptr {
	ci, conc := e.checkIndex(idx, ni, n)
	if conc {
		return Ptr{L: arr.Kids[off+ci]}
	}
	// symbolic index: scalar arrays use ite chains, others fork.
	scalar := true
	if n > 0 {
		if arr.Kids[off].Comp {
			scalar = false
		} else if _, ok := arr.Kids[off].V.(*Term); !ok {
			scalar = false
		}
	}
	if scalar && n <= 1024 {
		return Ptr{Arr: arr, Idx: idx, Off: off, N: n}
	}
	c := e.concretizeInt(idx, "index")
	return Ptr{L: arr.Kids[off+c]}
}

func (e *Exec) indexAddr(fr *frame, x *ssa.IndexAddr) Value {
	base := e.get(fr, x.X)
	idx := e.get(fr, x.Index).(*Term)
	ni, _ := basicInfo(x.Index.Type())
	switch b := base.(type) {
	case SliceV:
		return e.elemPtr(b.Arr, b.Off, b.Len, idx, ni)
	case Ptr:
		if b.L == nil {
			e.goPanicf("invalid memory address or nil pointer dereference")
		}
		return e.elemPtr(b.L, 0, len(b.L.Kids), idx, ni)
	}
	e.ooe("IndexAddr on %T", base)
	return nil
}

func (e *Exec) index(fr *frame, x *ssa.Index) Value {
	base := e.get(fr, x.X)
	idx := e.get(fr, x.Index).(*Term)
	ni, _ := basicInfo(x.Index.Type())
	switch b := base.(type) {
	case *StrV:
		b = e.plainStr(b)
		ci, conc := e.checkIndex(idx, ni, len(b.B))
		if conc {
			return b.B[ci]
		}
		var res *Term
		for i := len(b.B) - 1; i >= 0; i-- {
			if res == nil {
				res = b.B[i]
			} else {
				res = e.tb.Ite(e.tb.Eq(idx, e.idxConst(idx, i)), b.B[i], res)
			}
		}
		return res
	case *ArrayV:
		ci, conc := e.checkIndex(idx, ni, len(b.E))
		if conc {
			return b.E[ci]
		}
		c := e.concretizeInt(idx, "array index")
		return b.E[c]
	}
	e.ooe("Index on %T", base)
	return nil
}

func (e *Exec) sliceOp(fr *frame, x *ssa.Slice) Value {
	base := e.get(fr, x.X)
	bound := func(v ssa.Value, def int) int {
		if v == nil {
			return def
		}
		t := e.get(fr, v).(*Term)
		ni, _ := basicInfo(v.Type())
		if c, ok := e.concInt(t, ni); ok {
			return int(c)
		}
		return e.concretizeInt(t, "slice bound")
	}
	switch b := base.(type) {
	case *StrV:
		b = e.plainStr(b)
		lo := bound(x.Low, 0)
		hi := bound(x.High, len(b.B))
		if lo < 0 || hi > len(b.B) || lo > hi {
			e.goPanicf("slice bounds out of range [%d:%d] with length %d", lo, hi, len(b.B))
		}
		return &StrV{B: b.B[lo:hi]}
	case SliceV:
		lo := bound(x.Low, 0)
		hi := bound(x.High, b.Len)
		mx := bound(x.Max, b.Cap)
		if lo < 0 || hi > mx || lo > hi || mx > b.Cap {
			e.goPanicf("slice bounds out of range [%d:%d:%d] with capacity %d", lo, hi, mx, b.Cap)
		}
		if b.Arr == nil {
			return SliceV{}
		}
		return SliceV{Arr: b.Arr, Off: b.Off + lo, Len: hi - lo, Cap: mx - lo}
	case Ptr: // pointer to array
		if b.L == nil {
			e.goPanicf("invalid memory address or nil pointer dereference")
		}
		n := len(b.L.Kids)
		lo := bound(x.Low, 0)
		hi := bound(x.High, n)
		mx := bound(x.Max, n)
		if lo < 0 || hi > mx || lo > hi || mx > n {
			e.goPanicf("slice bounds out of range [%d:%d:%d] with capacity %d", lo, hi, mx, n)
		}
		return SliceV{Arr: b.L, Off: lo, Len: hi - lo, Cap: mx - lo}
	}
	e.ooe("Slice on %T", base)
	return nil
}
