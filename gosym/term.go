package gosym

// Term layer: hash-consed SMT terms with constant folding. One TB per worker
// (not shared between goroutines).

import (
	"fmt"
	"math"
	"math/big"
	"sort"
	"strings"
)

type Kind uint8

const (
	KBool Kind = iota
	KBV
	KInt
	KFP
)

type Sort struct {
	K Kind
	W int // bit width for KBV; 32/64 for KFP
}

func (s Sort) SMT() string {
	switch s.K {
	case KBool:
		return "Bool"
	case KBV:
		return fmt.Sprintf("(_ BitVec %d)", s.W)
	case KInt:
		return "Int"
	case KFP:
		if s.W == 32 {
			return "(_ FloatingPoint 8 24)"
		}
		return "(_ FloatingPoint 11 53)"
	}
	return "?"
}

var (
	SBool = Sort{KBool, 0}
	SInt  = Sort{KInt, 0}
)

func SBV(w int) Sort { return Sort{KBV, w} }
func SFP(w int) Sort { return Sort{KFP, w} }

type Term struct {
	Op    string
	Args  []*Term
	S     Sort
	Const bool
	I     *big.Int // BV (unsigned, normalized) / Int constants
	B     bool
	F     float64
	Name  string // variables / uninterpreted function name
	P     [2]int // parameters (extract hi/lo, extend amount)
	id    int
	// interval for KInt terms (nil = unbounded)
	Lo, Hi *big.Int
}

func (t *Term) IsTrue() bool  { return t.Const && t.S.K == KBool && t.B }
func (t *Term) IsFalse() bool { return t.Const && t.S.K == KBool && !t.B }

type TB struct {
	tab    map[string]*Term
	nextID int
	vars   []*Term          // declared variables in creation order
	ufs    map[string]string // uninterpreted function declarations name -> decl
	ufOrd  []string
	True   *Term
	False  *Term
}

func NewTB() *TB {
	tb := &TB{tab: map[string]*Term{}, ufs: map[string]string{}}
	tb.True = tb.intern(&Term{Op: "const", S: SBool, Const: true, B: true})
	tb.False = tb.intern(&Term{Op: "const", S: SBool, Const: true, B: false})
	return tb
}

func (tb *TB) key(t *Term) string {
	var sb strings.Builder
	sb.WriteString(t.Op)
	sb.WriteByte('|')
	fmt.Fprintf(&sb, "%d.%d|", t.S.K, t.S.W)
	if t.Const {
		switch t.S.K {
		case KBool:
			if t.B {
				sb.WriteString("T")
			} else {
				sb.WriteString("F")
			}
		case KFP:
			fmt.Fprintf(&sb, "%x", math.Float64bits(t.F))
		default:
			sb.WriteString(t.I.String())
		}
	}
	sb.WriteString(t.Name)
	if t.P[0] != 0 || t.P[1] != 0 {
		fmt.Fprintf(&sb, "|%d,%d", t.P[0], t.P[1])
	}
	for _, a := range t.Args {
		fmt.Fprintf(&sb, ",%d", a.id)
	}
	return sb.String()
}

func (tb *TB) intern(t *Term) *Term {
	k := tb.key(t)
	if o, ok := tb.tab[k]; ok {
		return o
	}
	tb.nextID++
	t.id = tb.nextID
	tb.tab[k] = t
	return t
}

func (tb *TB) Bool(b bool) *Term {
	if b {
		return tb.True
	}
	return tb.False
}

var bigOne = big.NewInt(1)

func pow2(w int) *big.Int { return new(big.Int).Lsh(bigOne, uint(w)) }

func normU(v *big.Int, w int) *big.Int {
	m := pow2(w)
	r := new(big.Int).Mod(v, m)
	if r.Sign() < 0 {
		r.Add(r, m)
	}
	return r
}

func toSigned(v *big.Int, w int) *big.Int {
	if v.Bit(w-1) == 1 {
		return new(big.Int).Sub(v, pow2(w))
	}
	return new(big.Int).Set(v)
}

func (tb *TB) BV(w int, v *big.Int) *Term {
	return tb.intern(&Term{Op: "const", S: SBV(w), Const: true, I: normU(v, w)})
}
func (tb *TB) BVi(w int, v int64) *Term { return tb.BV(w, big.NewInt(v)) }
func (tb *TB) Int(v *big.Int) *Term {
	c := new(big.Int).Set(v)
	return tb.intern(&Term{Op: "const", S: SInt, Const: true, I: c, Lo: c, Hi: c})
}
func (tb *TB) Inti(v int64) *Term { return tb.Int(big.NewInt(v)) }
func (tb *TB) FP(w int, f float64) *Term {
	if w == 32 {
		f = float64(float32(f))
	}
	return tb.intern(&Term{Op: "const", S: SFP(w), Const: true, F: f})
}

func (tb *TB) Var(name string, s Sort) *Term {
	t := &Term{Op: "var", S: s, Name: name}
	k := tb.key(t)
	if o, ok := tb.tab[k]; ok {
		return o
	}
	t = tb.intern(t)
	tb.vars = append(tb.vars, t)
	return t
}

// VarRange declares an Int variable with a known interval.
func (tb *TB) VarRange(name string, lo, hi *big.Int) *Term {
	t := tb.Var(name, SInt)
	t.Lo, t.Hi = lo, hi
	return t
}

// UF application (uninterpreted function), declared on first use.
func (tb *TB) UF(name string, res Sort, args ...*Term) *Term {
	if _, ok := tb.ufs[name]; !ok {
		var as []string
		for _, a := range args {
			as = append(as, a.S.SMT())
		}
		tb.ufs[name] = fmt.Sprintf("(declare-fun %s (%s) %s)", name, strings.Join(as, " "), res.SMT())
		tb.ufOrd = append(tb.ufOrd, name)
	}
	allc := true
	for _, a := range args {
		if !a.Const {
			allc = false
		}
	}
	_ = allc
	return tb.intern(&Term{Op: "uf", Name: name, S: res, Args: args})
}

func (tb *TB) mk(op string, s Sort, args ...*Term) *Term {
	return tb.intern(&Term{Op: op, S: s, Args: args})
}

// ---------- boolean ----------

func (tb *TB) Not(a *Term) *Term {
	if a.Const {
		return tb.Bool(!a.B)
	}
	if a.Op == "not" {
		return a.Args[0]
	}
	return tb.mk("not", SBool, a)
}

func (tb *TB) And(as ...*Term) *Term {
	var out []*Term
	seen := map[int]bool{}
	for _, a := range as {
		if a.Const {
			if !a.B {
				return tb.False
			}
			continue
		}
		if a.Op == "and" {
			for _, x := range a.Args {
				if !seen[x.id] {
					seen[x.id] = true
					out = append(out, x)
				}
			}
			continue
		}
		if !seen[a.id] {
			seen[a.id] = true
			out = append(out, a)
		}
	}
	if len(out) == 0 {
		return tb.True
	}
	if len(out) == 1 {
		return out[0]
	}
	return tb.mk("and", SBool, out...)
}

func (tb *TB) Or(as ...*Term) *Term {
	var out []*Term
	seen := map[int]bool{}
	for _, a := range as {
		if a.Const {
			if a.B {
				return tb.True
			}
			continue
		}
		if a.Op == "or" {
			for _, x := range a.Args {
				if !seen[x.id] {
					seen[x.id] = true
					out = append(out, x)
				}
			}
			continue
		}
		if !seen[a.id] {
			seen[a.id] = true
			out = append(out, a)
		}
	}
	if len(out) == 0 {
		return tb.False
	}
	if len(out) == 1 {
		return out[0]
	}
	return tb.mk("or", SBool, out...)
}

func (tb *TB) Implies(a, b *Term) *Term { return tb.Or(tb.Not(a), b) }

func (tb *TB) Ite(c, a, b *Term) *Term {
	if c.Const {
		if c.B {
			return a
		}
		return b
	}
	if a == b {
		return a
	}
	if a.S != b.S {
		panic(fmt.Sprintf("ite sort mismatch %v %v", a.S, b.S))
	}
	if a.S.K == KBool {
		if a.Const && b.Const {
			if a.B {
				return c
			}
			return tb.Not(c)
		}
		if a.Const {
			if a.B {
				return tb.Or(c, b)
			}
			return tb.And(tb.Not(c), b)
		}
		if b.Const {
			if b.B {
				return tb.Or(tb.Not(c), a)
			}
			return tb.And(c, a)
		}
	}
	t := tb.mk("ite", a.S, c, a, b)
	if a.S.K == KInt && t.Lo == nil && t.Hi == nil {
		if a.Lo != nil && b.Lo != nil {
			t.Lo = minBig(a.Lo, b.Lo)
		}
		if a.Hi != nil && b.Hi != nil {
			t.Hi = maxBig(a.Hi, b.Hi)
		}
	}
	return t
}

func minBig(a, b *big.Int) *big.Int {
	if a.Cmp(b) < 0 {
		return a
	}
	return b
}
func maxBig(a, b *big.Int) *big.Int {
	if a.Cmp(b) > 0 {
		return a
	}
	return b
}

func (tb *TB) Eq(a, b *Term) *Term {
	if a == b {
		if a.S.K == KFP {
			// NaN != NaN; only fold for non-FP
		} else {
			return tb.True
		}
	}
	if a.S != b.S {
		panic(fmt.Sprintf("eq sort mismatch %v %v (%s vs %s)", a.S, b.S, tb.Show(a), tb.Show(b)))
	}
	if a.Const && b.Const {
		switch a.S.K {
		case KBool:
			return tb.Bool(a.B == b.B)
		case KFP:
			return tb.Bool(a.F == b.F)
		default:
			return tb.Bool(a.I.Cmp(b.I) == 0)
		}
	}
	if a.S.K == KBool {
		if a.Const {
			if a.B {
				return b
			}
			return tb.Not(b)
		}
		if b.Const {
			if b.B {
				return a
			}
			return tb.Not(a)
		}
	}
	if a.S.K == KFP {
		return tb.mk("fp.eq", SBool, a, b)
	}
	if a.S.K == KInt {
		// interval disjointness
		if a.Hi != nil && b.Lo != nil && a.Hi.Cmp(b.Lo) < 0 {
			return tb.False
		}
		if b.Hi != nil && a.Lo != nil && b.Hi.Cmp(a.Lo) < 0 {
			return tb.False
		}
	}
	// ite(c, k1, k2) == k  with constants -> simplify (common for pool selectors)
	if a.S.K != KFP {
		if r, ok := tb.lift2(a, b, tb.Eq); ok {
			return r
		}
	}
	if a.id > b.id {
		a, b = b, a
	}
	return tb.mk("=", SBool, a, b)
}

// ---------- bit-vectors ----------

func (tb *TB) bvBin(op string, a, b *Term) *Term {
	if a.S != b.S || a.S.K != KBV {
		panic(fmt.Sprintf("bv %s sort mismatch %v %v", op, a.S, b.S))
	}
	w := a.S.W
	if a.Const && b.Const {
		x, y := a.I, b.I
		r := new(big.Int)
		switch op {
		case "bvadd":
			r.Add(x, y)
		case "bvsub":
			r.Sub(x, y)
		case "bvmul":
			r.Mul(x, y)
		case "bvand":
			r.And(x, y)
		case "bvor":
			r.Or(x, y)
		case "bvxor":
			r.Xor(x, y)
		case "bvudiv":
			if y.Sign() == 0 {
				r.Sub(pow2(w), bigOne)
			} else {
				r.Div(x, y)
			}
		case "bvurem":
			if y.Sign() == 0 {
				r.Set(x)
			} else {
				r.Mod(x, y)
			}
		case "bvsdiv":
			sx, sy := toSigned(x, w), toSigned(y, w)
			if sy.Sign() == 0 {
				if sx.Sign() >= 0 {
					r.SetInt64(-1)
				} else {
					r.SetInt64(1)
				}
			} else {
				r.Quo(sx, sy)
			}
		case "bvsrem":
			sx, sy := toSigned(x, w), toSigned(y, w)
			if sy.Sign() == 0 {
				r.Set(sx)
			} else {
				r.Rem(sx, sy)
			}
		case "bvshl":
			if y.Cmp(big.NewInt(int64(w))) >= 0 {
				r.SetInt64(0)
			} else {
				r.Lsh(x, uint(y.Int64()))
			}
		case "bvlshr":
			if y.Cmp(big.NewInt(int64(w))) >= 0 {
				r.SetInt64(0)
			} else {
				r.Rsh(x, uint(y.Int64()))
			}
		case "bvashr":
			sx := toSigned(x, w)
			if y.Cmp(big.NewInt(int64(w))) >= 0 {
				if sx.Sign() < 0 {
					r.SetInt64(-1)
				} else {
					r.SetInt64(0)
				}
			} else {
				r.Rsh(sx, uint(y.Int64()))
			}
		default:
			panic("bvBin fold " + op)
		}
		return tb.BV(w, r)
	}
	if r, ok := tb.lift2(a, b, func(x, y *Term) *Term { return tb.bvBin(op, x, y) }); ok {
		return r
	}
	// identities
	switch op {
	case "bvadd", "bvor", "bvxor":
		if a.Const && a.I.Sign() == 0 {
			return b
		}
		if b.Const && b.I.Sign() == 0 {
			return a
		}
	case "bvsub", "bvshl", "bvlshr", "bvashr":
		if b.Const && b.I.Sign() == 0 {
			return a
		}
	case "bvmul":
		if a.Const && a.I.Cmp(bigOne) == 0 {
			return b
		}
		if b.Const && b.I.Cmp(bigOne) == 0 {
			return a
		}
		if (a.Const && a.I.Sign() == 0) || (b.Const && b.I.Sign() == 0) {
			return tb.BVi(w, 0)
		}
	case "bvand":
		if (a.Const && a.I.Sign() == 0) || (b.Const && b.I.Sign() == 0) {
			return tb.BVi(w, 0)
		}
		all := new(big.Int).Sub(pow2(w), bigOne)
		if a.Const && a.I.Cmp(all) == 0 {
			return b
		}
		if b.Const && b.I.Cmp(all) == 0 {
			return a
		}
	}
	return tb.mk(op, a.S, a, b)
}

func (tb *TB) bvCmp(op string, a, b *Term) *Term {
	if a.S != b.S || a.S.K != KBV {
		panic(fmt.Sprintf("bv %s sort mismatch %v %v", op, a.S, b.S))
	}
	w := a.S.W
	if a.Const && b.Const {
		var c int
		if op[2] == 'u' {
			c = a.I.Cmp(b.I)
		} else {
			c = toSigned(a.I, w).Cmp(toSigned(b.I, w))
		}
		switch op[3:] {
		case "lt":
			return tb.Bool(c < 0)
		case "le":
			return tb.Bool(c <= 0)
		}
	}
	if a == b {
		return tb.Bool(op[3:] == "le")
	}
	if r, ok := tb.lift2(a, b, func(x, y *Term) *Term { return tb.bvCmp(op, x, y) }); ok {
		return r
	}
	return tb.mk(op, SBool, a, b)
}

func (tb *TB) BVNot(a *Term) *Term {
	if a.Const {
		return tb.BV(a.S.W, new(big.Int).Not(a.I))
	}
	return tb.mk("bvnot", a.S, a)
}
func (tb *TB) BVNeg(a *Term) *Term {
	if a.Const {
		return tb.BV(a.S.W, new(big.Int).Neg(a.I))
	}
	return tb.mk("bvneg", a.S, a)
}

func (tb *TB) Extract(hi, lo int, a *Term) *Term {
	if lo == 0 && hi == a.S.W-1 {
		return a
	}
	if a.Const {
		r := new(big.Int).Rsh(a.I, uint(lo))
		return tb.BV(hi-lo+1, r)
	}
	if isConstTree(a) {
		return tb.lift1(a, func(x *Term) *Term { return tb.Extract(hi, lo, x) })
	}
	// extract of zero/sign-extend below original width
	if (a.Op == "zext" || a.Op == "sext") && lo == 0 && hi < a.Args[0].S.W {
		return tb.Extract(hi, 0, a.Args[0])
	}
	return tb.intern(&Term{Op: "extract", S: SBV(hi - lo + 1), Args: []*Term{a}, P: [2]int{hi, lo}})
}

func (tb *TB) ZExt(to int, a *Term) *Term {
	if to == a.S.W {
		return a
	}
	if a.Const {
		return tb.BV(to, a.I)
	}
	if isConstTree(a) {
		return tb.lift1(a, func(x *Term) *Term { return tb.ZExt(to, x) })
	}
	return tb.intern(&Term{Op: "zext", S: SBV(to), Args: []*Term{a}, P: [2]int{to - a.S.W, 0}})
}
func (tb *TB) SExt(to int, a *Term) *Term {
	if to == a.S.W {
		return a
	}
	if a.Const {
		return tb.BV(to, toSigned(a.I, a.S.W))
	}
	if isConstTree(a) {
		return tb.lift1(a, func(x *Term) *Term { return tb.SExt(to, x) })
	}
	return tb.intern(&Term{Op: "sext", S: SBV(to), Args: []*Term{a}, P: [2]int{to - a.S.W, 0}})
}

// ---------- integers (LIA) ----------

func addB(a, b *big.Int) *big.Int {
	if a == nil || b == nil {
		return nil
	}
	return new(big.Int).Add(a, b)
}
func subB(a, b *big.Int) *big.Int {
	if a == nil || b == nil {
		return nil
	}
	return new(big.Int).Sub(a, b)
}

func (tb *TB) IAdd(a, b *Term) *Term {
	if a.Const && b.Const {
		return tb.Int(new(big.Int).Add(a.I, b.I))
	}
	if a.Const && a.I.Sign() == 0 {
		return b
	}
	if b.Const && b.I.Sign() == 0 {
		return a
	}
	if r, ok := tb.lift2(a, b, tb.IAdd); ok {
		return r
	}
	t := tb.mk("+", SInt, a, b)
	if t.Lo == nil && t.Hi == nil {
		t.Lo, t.Hi = addB(a.Lo, b.Lo), addB(a.Hi, b.Hi)
	}
	return t
}
func (tb *TB) ISub(a, b *Term) *Term {
	if a.Const && b.Const {
		return tb.Int(new(big.Int).Sub(a.I, b.I))
	}
	if b.Const && b.I.Sign() == 0 {
		return a
	}
	if a == b {
		return tb.Inti(0)
	}
	if r, ok := tb.lift2(a, b, tb.ISub); ok {
		return r
	}
	t := tb.mk("-", SInt, a, b)
	if t.Lo == nil && t.Hi == nil {
		t.Lo, t.Hi = subB(a.Lo, b.Hi), subB(a.Hi, b.Lo)
	}
	return t
}
func (tb *TB) INeg(a *Term) *Term { return tb.ISub(tb.Inti(0), a) }

func (tb *TB) IMul(a, b *Term) *Term {
	if a.Const && b.Const {
		return tb.Int(new(big.Int).Mul(a.I, b.I))
	}
	if a.Const && a.I.Cmp(bigOne) == 0 {
		return b
	}
	if b.Const && b.I.Cmp(bigOne) == 0 {
		return a
	}
	if (a.Const && a.I.Sign() == 0) || (b.Const && b.I.Sign() == 0) {
		return tb.Inti(0)
	}
	if r, ok := tb.lift2(a, b, tb.IMul); ok {
		return r
	}
	t := tb.mk("*", SInt, a, b)
	if t.Lo == nil && t.Hi == nil && a.Lo != nil && a.Hi != nil && b.Lo != nil && b.Hi != nil {
		c := []*big.Int{new(big.Int).Mul(a.Lo, b.Lo), new(big.Int).Mul(a.Lo, b.Hi), new(big.Int).Mul(a.Hi, b.Lo), new(big.Int).Mul(a.Hi, b.Hi)}
		lo, hi := c[0], c[0]
		for _, x := range c[1:] {
			lo, hi = minBig(lo, x), maxBig(hi, x)
		}
		t.Lo, t.Hi = lo, hi
	}
	return t
}

// IDivE / IModE: SMT-LIB euclidean div/mod (for positive constant divisor = floor).
func (tb *TB) IDivE(a, b *Term) *Term {
	if a.Const && b.Const && b.I.Sign() != 0 {
		q, m := new(big.Int), new(big.Int)
		q.DivMod(a.I, b.I, m) // Euclidean
		return tb.Int(q)
	}
	t := tb.mk("div", SInt, a, b)
	if t.Lo == nil && t.Hi == nil && b.Const && b.I.Sign() > 0 && a.Lo != nil && a.Hi != nil {
		q1, q2 := new(big.Int), new(big.Int)
		q1.DivMod(a.Lo, b.I, new(big.Int))
		q2.DivMod(a.Hi, b.I, new(big.Int))
		t.Lo, t.Hi = q1, q2
	}
	return t
}
func (tb *TB) IModE(a, b *Term) *Term {
	if a.Const && b.Const && b.I.Sign() != 0 {
		q, m := new(big.Int), new(big.Int)
		q.DivMod(a.I, b.I, m)
		return tb.Int(m)
	}
	if b.Const && b.I.Sign() > 0 && a.Lo != nil && a.Hi != nil && a.Lo.Sign() >= 0 && a.Hi.Cmp(b.I) < 0 {
		return a
	}
	t := tb.mk("mod", SInt, a, b)
	if t.Lo == nil && t.Hi == nil && b.Const && b.I.Sign() > 0 {
		t.Lo, t.Hi = big.NewInt(0), new(big.Int).Sub(b.I, bigOne)
	}
	return t
}

func (tb *TB) ILt(a, b *Term) *Term {
	if a.Const && b.Const {
		return tb.Bool(a.I.Cmp(b.I) < 0)
	}
	if a == b {
		return tb.False
	}
	if a.Hi != nil && b.Lo != nil && a.Hi.Cmp(b.Lo) < 0 {
		return tb.True
	}
	if a.Lo != nil && b.Hi != nil && a.Lo.Cmp(b.Hi) >= 0 {
		return tb.False
	}
	if r, ok := tb.lift2(a, b, tb.ILt); ok {
		return r
	}
	return tb.mk("<", SBool, a, b)
}
func (tb *TB) ILe(a, b *Term) *Term {
	if a.Const && b.Const {
		return tb.Bool(a.I.Cmp(b.I) <= 0)
	}
	if a == b {
		return tb.True
	}
	if a.Hi != nil && b.Lo != nil && a.Hi.Cmp(b.Lo) <= 0 {
		return tb.True
	}
	if a.Lo != nil && b.Hi != nil && a.Lo.Cmp(b.Hi) > 0 {
		return tb.False
	}
	if r, ok := tb.lift2(a, b, tb.ILe); ok {
		return r
	}
	return tb.mk("<=", SBool, a, b)
}

// Wrap an Int term into [lo, lo+2^w) i.e. two's complement range.
func (tb *TB) IWrap(a *Term, w int, signed bool) *Term {
	var lo, hi *big.Int
	if signed {
		lo = new(big.Int).Neg(pow2(w - 1))
		hi = new(big.Int).Sub(pow2(w-1), bigOne)
	} else {
		lo = big.NewInt(0)
		hi = new(big.Int).Sub(pow2(w), bigOne)
	}
	if a.Const {
		v := normU(a.I, w)
		if signed {
			v = toSigned(v, w)
		}
		return tb.Int(v)
	}
	if a.Lo != nil && a.Hi != nil && a.Lo.Cmp(lo) >= 0 && a.Hi.Cmp(hi) <= 0 {
		return a
	}
	var t *Term
	if signed {
		h := tb.Int(pow2(w - 1))
		t = tb.ISub(tb.IModE(tb.IAdd(a, h), tb.Int(pow2(w))), h)
	} else {
		t = tb.IModE(a, tb.Int(pow2(w)))
	}
	if !t.Const {
		t.Lo, t.Hi = lo, hi
	}
	return t
}

// ---------- floats ----------

func (tb *TB) fpBin(op string, a, b *Term) *Term {
	if a.Const && b.Const {
		var r float64
		switch op {
		case "fp.add":
			r = a.F + b.F
		case "fp.sub":
			r = a.F - b.F
		case "fp.mul":
			r = a.F * b.F
		case "fp.div":
			r = a.F / b.F
		}
		if a.S.W == 32 {
			switch op {
			case "fp.add":
				r = float64(float32(a.F) + float32(b.F))
			case "fp.sub":
				r = float64(float32(a.F) - float32(b.F))
			case "fp.mul":
				r = float64(float32(a.F) * float32(b.F))
			case "fp.div":
				r = float64(float32(a.F) / float32(b.F))
			}
		}
		return tb.FP(a.S.W, r)
	}
	return tb.mk(op, a.S, a, b)
}
func (tb *TB) fpCmp(op string, a, b *Term) *Term {
	if a.Const && b.Const {
		switch op {
		case "fp.lt":
			return tb.Bool(a.F < b.F)
		case "fp.leq":
			return tb.Bool(a.F <= b.F)
		case "fp.gt":
			return tb.Bool(a.F > b.F)
		case "fp.geq":
			return tb.Bool(a.F >= b.F)
		}
	}
	return tb.mk(op, SBool, a, b)
}

// ---------- printing ----------

func (tb *TB) constSMT(t *Term) string {
	switch t.S.K {
	case KBool:
		if t.B {
			return "true"
		}
		return "false"
	case KBV:
		if t.S.W%4 == 0 {
			s := t.I.Text(16)
			return "#x" + strings.Repeat("0", t.S.W/4-len(s)) + s
		}
		s := t.I.Text(2)
		return "#b" + strings.Repeat("0", t.S.W-len(s)) + s
	case KInt:
		if t.I.Sign() < 0 {
			return "(- " + new(big.Int).Neg(t.I).String() + ")"
		}
		return t.I.String()
	case KFP:
		if t.S.W == 32 {
			b := math.Float32bits(float32(t.F))
			return fmt.Sprintf("(fp #b%01b #b%08b #b%023b)", b>>31, (b>>23)&0xff, b&0x7fffff)
		}
		b := math.Float64bits(t.F)
		return fmt.Sprintf("(fp #b%01b #b%011b #b%052b)", b>>63, (b>>52)&0x7ff, b&0xfffffffffffff)
	}
	return "?"
}

// Show renders a term as a (possibly large) tree; for debugging/samples only.
func (tb *TB) Show(t *Term) string {
	var sb strings.Builder
	tb.show(&sb, t, 0)
	return sb.String()
}
func (tb *TB) show(sb *strings.Builder, t *Term, d int) {
	if d > 12 {
		sb.WriteString("…")
		return
	}
	if t.Const {
		sb.WriteString(tb.constSMT(t))
		return
	}
	if t.Op == "var" {
		sb.WriteString(t.Name)
		return
	}
	sb.WriteByte('(')
	sb.WriteString(tb.opSMT(t))
	for _, a := range t.Args {
		sb.WriteByte(' ')
		tb.show(sb, a, d+1)
	}
	sb.WriteByte(')')
}

func (tb *TB) opSMT(t *Term) string {
	switch t.Op {
	case "extract":
		return fmt.Sprintf("(_ extract %d %d)", t.P[0], t.P[1])
	case "zext":
		return fmt.Sprintf("(_ zero_extend %d)", t.P[0])
	case "sext":
		return fmt.Sprintf("(_ sign_extend %d)", t.P[0])
	case "uf":
		return t.Name
	case "fp.add", "fp.sub", "fp.mul", "fp.div":
		return t.Op + " RNE"
	case "to_fp_s":
		if t.S.W == 32 {
			return "(_ to_fp 8 24) RNE"
		}
		return "(_ to_fp 11 53) RNE"
	case "to_fp_u":
		if t.S.W == 32 {
			return "(_ to_fp_unsigned 8 24) RNE"
		}
		return "(_ to_fp_unsigned 11 53) RNE"
	case "to_fp_f":
		if t.S.W == 32 {
			return "(_ to_fp 8 24) RNE"
		}
		return "(_ to_fp 11 53) RNE"
	case "fp.to_sbv":
		return fmt.Sprintf("(_ fp.to_sbv %d) RTZ", t.S.W)
	case "fp.to_ubv":
		return fmt.Sprintf("(_ fp.to_ubv %d) RTZ", t.S.W)
	case "bv2fp64":
		return "(_ to_fp 11 53)"
	case "int2bv":
		return fmt.Sprintf("(_ int2bv %d)", t.S.W)
	}
	return t.Op
}

// ---------- evaluation under a model ----------

type Model map[string]*Term // var name -> const term

func (tb *TB) Eval(t *Term, m Model, cache map[int]*Term) *Term {
	if t.Const {
		return t
	}
	if c, ok := cache[t.id]; ok {
		return c
	}
	var r *Term
	switch t.Op {
	case "var":
		if v, ok := m[t.Name]; ok {
			r = v
		} else {
			// default value
			switch t.S.K {
			case KBool:
				r = tb.False
			case KBV:
				r = tb.BVi(t.S.W, 0)
			case KInt:
				r = tb.Inti(0)
				if t.Lo != nil && t.Lo.Sign() > 0 {
					r = tb.Int(t.Lo)
				}
			case KFP:
				r = tb.FP(t.S.W, 0)
			}
		}
	case "uf":
		return nil
	default:
		args := make([]*Term, len(t.Args))
		for i, a := range t.Args {
			args[i] = tb.Eval(a, m, cache)
			if args[i] == nil {
				return nil
			}
		}
		r = tb.rebuild(t, args)
		if r != nil && !r.Const {
			r = nil
		}
	}
	if r != nil {
		cache[t.id] = r
	}
	return r
}

// rebuild applies t's operator to new args through the folding constructors.
func (tb *TB) rebuild(t *Term, a []*Term) *Term {
	switch t.Op {
	case "not":
		return tb.Not(a[0])
	case "and":
		return tb.And(a...)
	case "or":
		return tb.Or(a...)
	case "ite":
		return tb.Ite(a[0], a[1], a[2])
	case "=", "fp.eq":
		return tb.Eq(a[0], a[1])
	case "bvadd", "bvsub", "bvmul", "bvand", "bvor", "bvxor", "bvudiv", "bvurem", "bvsdiv", "bvsrem", "bvshl", "bvlshr", "bvashr":
		return tb.bvBin(t.Op, a[0], a[1])
	case "bvult", "bvule", "bvslt", "bvsle":
		return tb.bvCmp(t.Op, a[0], a[1])
	case "bvnot":
		return tb.BVNot(a[0])
	case "bvneg":
		return tb.BVNeg(a[0])
	case "extract":
		return tb.Extract(t.P[0], t.P[1], a[0])
	case "zext":
		return tb.ZExt(t.S.W, a[0])
	case "sext":
		return tb.SExt(t.S.W, a[0])
	case "concat":
		return tb.Concat(a[0], a[1])
	case "+":
		return tb.IAdd(a[0], a[1])
	case "-":
		return tb.ISub(a[0], a[1])
	case "*":
		return tb.IMul(a[0], a[1])
	case "div":
		return tb.IDivE(a[0], a[1])
	case "mod":
		return tb.IModE(a[0], a[1])
	case "<":
		return tb.ILt(a[0], a[1])
	case "<=":
		return tb.ILe(a[0], a[1])
	case "fp.add", "fp.sub", "fp.mul", "fp.div":
		return tb.fpBin(t.Op, a[0], a[1])
	case "fp.lt", "fp.leq", "fp.gt", "fp.geq":
		return tb.fpCmp(t.Op, a[0], a[1])
	case "fp.isNaN":
		return tb.FPIsNaN(a[0])
	case "fp.isInfinite":
		return tb.FPIsInf(a[0])
	case "fp.neg":
		return tb.FPNeg(a[0])
	case "to_fp_s":
		return tb.IntToFP(t.S.W, a[0], true)
	case "to_fp_u":
		return tb.IntToFP(t.S.W, a[0], false)
	case "to_fp_f":
		return tb.FPToFP(t.S.W, a[0])
	case "fp.to_sbv":
		return tb.FPToBV(t.S.W, a[0], true)
	case "fp.to_ubv":
		return tb.FPToBV(t.S.W, a[0], false)
	case "int_to_fp":
		return tb.RealIntToFP(t.S.W, a[0])
	case "fp_to_int":
		return tb.FPToIntTrunc(a[0])
	case "fp.abs":
		if a[0].Const {
			return tb.FP(t.S.W, math.Abs(a[0].F))
		}
	}
	return nil
}

func (tb *TB) Concat(a, b *Term) *Term {
	if a.Const && b.Const {
		r := new(big.Int).Lsh(a.I, uint(b.S.W))
		r.Or(r, b.I)
		return tb.BV(a.S.W+b.S.W, r)
	}
	return tb.mk("concat", SBV(a.S.W+b.S.W), a, b)
}

func (tb *TB) FPIsNaN(a *Term) *Term {
	if a.Const {
		return tb.Bool(math.IsNaN(a.F))
	}
	return tb.mk("fp.isNaN", SBool, a)
}
func (tb *TB) FPIsInf(a *Term) *Term {
	if a.Const {
		return tb.Bool(math.IsInf(a.F, 0))
	}
	return tb.mk("fp.isInfinite", SBool, a)
}
func (tb *TB) FPNeg(a *Term) *Term {
	if a.Const {
		return tb.FP(a.S.W, -a.F)
	}
	return tb.mk("fp.neg", a.S, a)
}

// IntToFP converts a BV term (signed/unsigned) to FP.
func (tb *TB) IntToFP(w int, a *Term, signed bool) *Term {
	if a.Const && a.S.K == KBV {
		v := a.I
		if signed {
			v = toSigned(a.I, a.S.W)
		}
		f, _ := new(big.Float).SetInt(v).Float64()
		if w == 32 {
			f32, _ := new(big.Float).SetInt(v).Float32()
			f = float64(f32)
		}
		return tb.FP(w, f)
	}
	if signed {
		return tb.mk("to_fp_s", SFP(w), a)
	}
	return tb.mk("to_fp_u", SFP(w), a)
}
func (tb *TB) FPToFP(w int, a *Term) *Term {
	if a.S.W == w {
		return a
	}
	if a.Const {
		return tb.FP(w, a.F)
	}
	return tb.mk("to_fp_f", SFP(w), a)
}
func (tb *TB) FPToBV(w int, a *Term, signed bool) *Term {
	if a.Const && !math.IsNaN(a.F) && !math.IsInf(a.F, 0) {
		bf := new(big.Float).SetFloat64(math.Trunc(a.F))
		bi, _ := bf.Int(nil)
		lo, hi := big.NewInt(0), new(big.Int).Sub(pow2(w), bigOne)
		if signed {
			lo = new(big.Int).Neg(pow2(w - 1))
			hi = new(big.Int).Sub(pow2(w-1), bigOne)
		}
		if bi.Cmp(lo) >= 0 && bi.Cmp(hi) <= 0 {
			return tb.BV(w, bi)
		}
	}
	if signed {
		return tb.mk("fp.to_sbv", SBV(w), a)
	}
	return tb.mk("fp.to_ubv", SBV(w), a)
}

// FreeVars returns the variable names occurring in t (sorted).
func (tb *TB) FreeVars(ts ...*Term) []string {
	seen := map[int]bool{}
	names := map[string]bool{}
	var walk func(t *Term)
	walk = func(t *Term) {
		if seen[t.id] {
			return
		}
		seen[t.id] = true
		if t.Op == "var" {
			names[t.Name] = true
		}
		for _, a := range t.Args {
			walk(a)
		}
	}
	for _, t := range ts {
		walk(t)
	}
	var out []string
	for n := range names {
		out = append(out, n)
	}
	sort.Strings(out)
	return out
}
