package gosym

import (
	"fmt"
	"math/big"
	"os"
	"runtime/debug"
	"sort"
	"strings"
	"sync"
	"time"
)

// ---------- decisions ----------
//
// A path is identified by its trace: the sequence of outcomes of every
// solver-decided branch (0/1), every engine choice (k) and every concretised
// value, in execution order. Re-running the harness with a trace prefix
// reproduces the state deterministically; new alternatives found past the
// prefix are queued as new prefixes.

type job struct {
	prefix []int64
	model  map[string]modelVal
}

type modelVal struct {
	S Sort
	I *big.Int
	B bool
	F float64
}

func (e *Exec) replaying() bool { return len(e.trace) < len(e.prefixV) }

func (e *Exec) nextReplay() int64 {
	v := e.prefixV[len(e.trace)]
	e.trace = append(e.trace, v)
	return v
}

func (e *Exec) addPC(c *Term) {
	e.pcV = append(e.pcV, c)
	e.pendingV = append(e.pendingV, c)
}

func (e *Exec) flush() {
	for _, c := range e.pendingV {
		e.sol.Assert(c)
	}
	e.pendingV = e.pendingV[:0]
}

func (e *Exec) modelSays(c *Term) (bool, bool) {
	if e.model == nil {
		return false, false
	}
	r := e.tb.Eval(c, e.model, map[int]*Term{})
	if r == nil || !r.Const {
		return false, false
	}
	return r.B, true
}

// query asks the solver for PC ∧ c, returning sat/unsat/unknown and a model.
// An "unknown" (soft timeout, or the watchdog killed the process) is retried
// once in a fresh solver context with a longer timeout: whether z3 finishes a
// query in an incremental context depends on what the worker asked before, and
// that depends on job scheduling; the same query from an empty context does not.
func (e *Exec) query(c *Term) (string, Model) {
	e.flush()
	res, m := e.sol.CheckModel(c, e.pathVars)
	if e.sol.Lost {
		// the solver was restarted: re-assert the whole path condition lazily
		e.sol.Lost = false
		e.pendingV = append(e.pendingV[:0], e.pcV...)
	}
	e.nQueries++
	if res == "unknown" {
		e.freshSolver()
		e.sol.SetTimeout(3 * e.sol.BaseTimeout())
		res, m = e.sol.CheckModel(c, e.pathVars)
		e.nQueries++
		e.W.noteRetry(res != "unknown")
		if res == "unknown" {
			// this context has seen an interrupted check-sat as well: replace it
			e.freshSolver()
		} else {
			e.sol.SetTimeout(e.sol.BaseTimeout())
			if e.sol.Lost {
				e.sol.Lost = false
				e.pendingV = append(e.pendingV[:0], e.pcV...)
			}
		}
	}
	if res == "unknown" {
		e.nUnknown++
	}
	if res != "sat" {
		m = nil
	}
	return res, m
}

// A nil model means "no model known for this path" (e.g. the feasibility of
// the branch that leads here was unknown). It must stay nil across the job
// queue: an empty non-nil model would make Eval fill in default values and
// modelSays would answer from an assignment that need not satisfy the path
// condition.
// freshSolver starts a new solver process and re-asserts the path condition.
func (e *Exec) freshSolver() {
	e.sol.Fresh()
	e.sol.Lost = false
	e.sol.Push() // the path scope runPath pops at the end
	e.pendingV = append(e.pendingV[:0], e.pcV...)
	e.flush()
}

func (e *Exec) exportModel(m Model) map[string]modelVal {
	if m == nil {
		return nil
	}
	out := make(map[string]modelVal, len(m))
	for k, v := range m {
		out[k] = modelVal{S: v.S, I: v.I, B: v.B, F: v.F}
	}
	return out
}

func (e *Exec) importModel(m map[string]modelVal) Model {
	if len(m) == 0 {
		return nil
	}
	out := make(Model, len(m))
	for k, v := range m {
		switch v.S.K {
		case KBool:
			out[k] = e.tb.Bool(v.B)
		case KBV:
			out[k] = e.tb.BV(v.S.W, v.I)
		case KInt:
			out[k] = e.tb.Int(v.I)
		case KFP:
			out[k] = e.tb.FP(v.S.W, v.F)
		}
	}
	return out
}

// branch decides a symbolic condition, forking when both sides are feasible.
func (e *Exec) branch(c *Term) bool {
	if c.Const {
		return c.B
	}
	if e.initMode {
		panic(&initOOE{"symbolic branch during init"})
	}
	if e.replaying() {
		d := e.nextReplay()
		if d == 1 {
			e.addPC(c)
			return true
		}
		e.addPC(e.tb.Not(c))
		return false
	}
	e.nBranches++
	nc := e.tb.Not(c)
	var tSat, fSat string
	var tM, fM Model
	if v, ok := e.modelSays(c); ok {
		if v {
			tSat, tM = "sat", e.model
			fSat, fM = e.query(nc)
		} else {
			fSat, fM = "sat", e.model
			tSat, tM = e.query(c)
		}
	} else {
		tSat, tM = e.query(c)
		if tSat == "unsat" {
			// PC is satisfiable by construction, so ¬c holds on this path.
			fSat, fM = "sat", nil
		} else {
			fSat, fM = e.query(nc)
		}
	}
	if tSat == "unknown" || fSat == "unknown" {
		e.inconclusive("branch feasibility unknown")
	}
	tOK, fOK := tSat != "unsat", fSat != "unsat"
	switch {
	case tOK && fOK:
		// fork: continue on the true side, queue the false side
		e.trace = append(e.trace, 1)
		alt := append(append([]int64(nil), e.trace[:len(e.trace)-1]...), 0)
		e.W.enqueue(&job{prefix: alt, model: e.exportModel(fM)})
		e.forks++
		e.addPC(c)
		e.model = tM
		return true
	case tOK:
		e.trace = append(e.trace, 1)
		e.addPC(c)
		e.model = tM
		return true
	case fOK:
		e.trace = append(e.trace, 0)
		e.addPC(nc)
		e.model = fM
		return false
	}
	e.abort("infeasible", "both sides of a branch infeasible (path condition unsat)")
	return false
}

// assume adds c to the path condition; the path ends if it becomes infeasible.
func (e *Exec) assume(c *Term) {
	if c.IsTrue() {
		return
	}
	if c.IsFalse() {
		e.abort("infeasible", "assumption false")
	}
	if e.replaying() {
		e.addPC(c)
		return
	}
	if v, ok := e.modelSays(c); ok && v {
		e.addPC(c)
		return
	}
	res, m := e.query(c)
	if res == "unsat" {
		e.abort("infeasible", "assumption infeasible")
	}
	if res == "unknown" {
		e.inconclusive("assumption feasibility unknown")
		m = nil
	}
	e.addPC(c)
	e.model = m
}

// choose makes an engine-level n-way choice (schedule, crash point, fault, ...).
func (e *Exec) choose(n int, label string) int {
	if n <= 1 {
		return 0
	}
	if e.replaying() {
		return int(e.nextReplay())
	}
	e.nChoices++
	base := append([]int64(nil), e.trace...)
	for k := n - 1; k >= 1; k-- {
		alt := append(append([]int64(nil), base...), int64(k))
		e.W.enqueue(&job{prefix: alt, model: e.exportModel(e.model)})
	}
	e.forks += n - 1
	e.trace = append(e.trace, 0)
	return 0
}

// concretizeInt enumerates the feasible values of an integer term by forking.
func (e *Exec) concretizeInt(t *Term, why string) int {
	ni := niInt
	if t.S.K == KBV {
		ni = numInfo{W: t.S.W, Signed: false, Int: true}
		if t.S.W == 64 {
			ni.Signed = true
		}
	}
	if c, ok := e.concInt(t, ni); ok {
		return int(c)
	}
	for n := 0; ; n++ {
		if n > 4096 {
			e.abort("bound-exceeded", "more than 4096 values while concretising (%s)", why)
		}
		var v int64
		if e.replaying() {
			v = e.nextReplay()
		} else {
			var cv *Term
			if e.model != nil {
				cv = e.tb.Eval(t, e.model, map[int]*Term{})
			}
			if cv == nil || !cv.Const {
				res, m := e.query(e.tb.True)
				if res != "sat" {
					if res == "unknown" {
						e.inconclusive("concretise: unknown")
					}
					e.abort("infeasible", "concretise: path condition not satisfiable")
				}
				e.model = m
				cv = e.tb.Eval(t, m, map[int]*Term{})
				if cv == nil || !cv.Const {
					// the term is not evaluable from the variable model alone (it contains
					// an uninterpreted function): name it and ask the solver for its value
					aux := e.newVar("conc", t.S)
					e.addPC(e.tb.mk("=", SBool, aux, t))
					res, m = e.query(e.tb.True)
					if res == "sat" {
						e.model = nil // the variable model does not determine UF terms
						cv = m[aux.Name]
					}
					if cv == nil || !cv.Const {
						e.ooe("cannot concretise %s (%s)", e.tb.Show(t), why)
					}
				}
			}
			v, _ = e.concInt(cv, ni)
			e.trace = append(e.trace, v)
		}
		var k *Term
		if t.S.K == KInt {
			k = e.tb.Inti(v)
		} else {
			k = e.tb.BVi(t.S.W, v)
		}
		if e.branch(e.tb.Eq(t, k)) {
			return int(v)
		}
	}
}

func (e *Exec) inconclusive(why string) {
	e.path.Inconclusive++
	if len(e.path.InconclusiveWhy) < 5 {
		e.path.InconclusiveWhy = append(e.path.InconclusiveWhy, why)
	}
}

// ---------- results ----------

type Violation struct {
	Msg     string
	Kind    string // assert | panic
	Inputs  map[string]string
	Trace   []int64
	Known   string // id of the known finding that covers it ("" = unlisted)
	Details string
}

type PathResult struct {
	End             string
	Msg             string
	Violations      []Violation
	Obligations     int
	Discharged      int
	Inconclusive    int
	InconclusiveWhy []string
	Reached         []string
	Steps           int
	Branches        int
	Choices         int
	Queries         int
	Sample          map[string]string
	Trace           []int64
}

type Summary struct {
	Paths, Done, Infeasible, OOE, BoundExceeded, Errors int
	Obligations, Discharged, Inconclusive               int
	Branches, Choices, Queries, Steps                   int
	Violations                                          []Violation
	Known                                               map[string]int
	Reached                                             map[string]int
	Msgs                                                map[string]int
	Samples                                             []map[string]string
	Stubs, Encoded                                      map[string]bool
	SolverTime                                          time.Duration
	Wall                                                time.Duration
	InconclusiveWhy                                     map[string]int
	Truncated                                           bool
	Retries, RetriesResolved                            int
	CrossChecked                                        int
	CrossDisagree                                       int
}

// ---------- world-level queue ----------

func (w *World) enqueue(j *job) {
	w.qmu.Lock()
	w.queue = append(w.queue, j)
	w.qmu.Unlock()
	w.qcond.Signal()
}

func (w *World) dequeue() *job {
	w.qmu.Lock()
	defer w.qmu.Unlock()
	for {
		if w.stop {
			return nil
		}
		if n := len(w.queue); n > 0 {
			j := w.queue[n-1]
			w.queue = w.queue[:n-1]
			w.active++
			return j
		}
		if w.active == 0 {
			w.qcond.Broadcast()
			return nil
		}
		w.qcond.Wait()
	}
}

func (w *World) jobDone() {
	w.qmu.Lock()
	w.active--
	if w.active == 0 && len(w.queue) == 0 {
		w.qcond.Broadcast()
	}
	w.qmu.Unlock()
}

// Explore runs the harness function over all paths.
func (w *World) Explore() *Summary {
	sum := &Summary{Known: map[string]int{}, Reached: map[string]int{}, Msgs: map[string]int{},
		Stubs: map[string]bool{}, Encoded: map[string]bool{}, InconclusiveWhy: map[string]int{}}
	t0 := time.Now()
	w.queue = []*job{{prefix: w.Opts.StartPrefix}}
	w.retries.Store(0)
	w.retriesResolved.Store(0)
	w.active = 0
	w.stop = false
	var mu sync.Mutex
	var wg sync.WaitGroup
	deadline := time.Time{}
	if w.Opts.Budget > 0 {
		deadline = t0.Add(w.Opts.Budget)
	}
	for i := 0; i < w.Opts.Workers; i++ {
		wg.Add(1)
		go func(id int) {
			defer wg.Done()
			e, err := w.newExec()
			if err != nil {
				fmt.Fprintln(os.Stderr, "worker:", err)
				return
			}
			defer e.sol.Close()
			npaths := 0
			for {
				j := w.dequeue()
				if j == nil {
					break
				}
				pr := e.runPath(j)
				npaths++
				if npaths%400 == 0 {
					e.sol.Reset()
				}
				mu.Lock()
				sum.add(pr, w)
				over := (w.Opts.MaxPaths > 0 && sum.Paths >= w.Opts.MaxPaths) || (!deadline.IsZero() && time.Now().After(deadline))
				stopOnViol := w.Opts.StopOnViolation && len(sum.Violations) > 0
				mu.Unlock()
				w.jobDone()
				if over || stopOnViol {
					w.qmu.Lock()
					if len(w.queue) > 0 || w.active > 0 {
						if over {
							sum.Truncated = true
						}
					}
					w.stop = true
					w.qmu.Unlock()
					w.qcond.Broadcast()
				}
			}
			mu.Lock()
			sum.SolverTime += e.sol.Time
			for k := range e.stubs {
				sum.Stubs[k] = true
			}
			for k := range e.encoded {
				sum.Encoded[k] = true
			}
			mu.Unlock()
		}(i)
	}
	wg.Wait()
	sum.Wall = time.Since(t0)
	sum.Retries, sum.RetriesResolved = int(w.retries.Load()), int(w.retriesResolved.Load())
	return sum
}

func (s *Summary) add(pr *PathResult, w *World) {
	s.Paths++
	switch pr.End {
	case "done":
		s.Done++
	case "infeasible":
		s.Infeasible++
	case "out-of-encoding":
		s.OOE++
		s.Msgs["OUT-OF-ENCODING: "+pr.Msg]++
	case "bound-exceeded":
		s.BoundExceeded++
		s.Msgs["BOUND-EXCEEDED: "+pr.Msg]++
	default:
		s.Errors++
		s.Msgs[pr.End+": "+pr.Msg]++
	}
	s.Obligations += pr.Obligations
	s.Discharged += pr.Discharged
	s.Inconclusive += pr.Inconclusive
	for _, y := range pr.InconclusiveWhy {
		s.InconclusiveWhy[y]++
	}
	s.Branches += pr.Branches
	s.Choices += pr.Choices
	s.Queries += pr.Queries
	s.Steps += pr.Steps
	for _, r := range pr.Reached {
		s.Reached[r]++
	}
	for _, v := range pr.Violations {
		if v.Known != "" {
			s.Known[v.Known]++
			continue
		}
		if len(s.Violations) < 50 {
			s.Violations = append(s.Violations, v)
		}
	}
	if pr.Sample != nil && len(s.Samples) < w.Opts.KeepSamples {
		s.Samples = append(s.Samples, pr.Sample)
	}
}

// runPath executes the harness once along the given prefix.
func (e *Exec) runPath(j *job) (pr *PathResult) {
	pr = &PathResult{}
	e.resetPath(j)
	e.path = pr
	e.sol.Push()
	defer func() {
		r := recover()
		e.sol.Pop()
		e.restoreGlobals()
		pr.Steps = e.steps
		pr.Branches = e.nBranches
		pr.Choices = e.nChoices
		pr.Queries = e.nQueries
		pr.Trace = append([]int64(nil), e.trace...)
		for k := range e.reached {
			pr.Reached = append(pr.Reached, k)
		}
		sort.Strings(pr.Reached)
		switch x := r.(type) {
		case nil:
			pr.End = "done"
		case *pathEnd:
			pr.End, pr.Msg = x.Kind, x.Msg
		case *goPanic:
			// a Go panic escaped the harness
			pr.End = "done"
			e.escapedPanic(x)
		default:
			pr.End = "engine-error"
			pr.Msg = fmt.Sprintf("%v\n%s", r, trimStack(debug.Stack()))
		}
	}()
	e.callFunc(&FuncV{Fn: e.W.Harness}, nil, "harness")
	e.runPendingGo()
	if e.threads != nil {
		e.finishThreads()
	}
	if e.W.Opts.KeepSamples > 0 && e.model != nil {
		pr.Sample = e.inputsFrom(e.model)
	}
	return pr
}

func trimStack(b []byte) string {
	lines := strings.Split(string(b), "\n")
	var out []string
	for _, l := range lines {
		if strings.Contains(l, "gosym") && strings.Contains(l, ".go:") {
			out = append(out, strings.TrimSpace(l))
			if len(out) > 12 {
				break
			}
		}
	}
	return strings.Join(out, " | ")
}

func (e *Exec) resetPath(j *job) {
	e.pcV = e.pcV[:0]
	e.pendingV = e.pendingV[:0]
	e.prefixV = j.prefix
	e.trace = e.trace[:0]
	e.model = e.importModel(j.model)
	e.steps = 0
	e.nBranches = 0
	e.nChoices = 0
	e.nQueries = 0
	e.nUnknown = 0
	e.varSeq = map[string]int{}
	e.named = nil
	e.namedInfo = nil
	e.pathVars = nil
	e.curPanic = nil
	e.depth = 0
	e.clockLast = nil
	e.clockMono = false
	e.clockFirst, e.clockSpan = nil, nil
	e.fs = nil
	e.crcBuf = nil
	e.largeAlloc = 0
	e.clockFixed = nil
	e.locks = nil
	e.clockN = 0
	e.obs = nil
	e.reached = map[string]bool{}
	e.forks = 0
	e.env = map[string]Value{}
	e.callStack = e.callStack[:0]
	e.unwind = e.W.Opts.Unwind
	e.maxSteps = e.W.Opts.MaxSteps
	e.threads = nil
	e.known = nil
	e.panicsAre = "violation"
	e.ufSeq = 0
	e.jsonBlobs = nil
	e.opaqueBytes = nil
	e.timeFmtDigits = false
	e.pendingGo = nil
}

// ---------- obligations ----------

// check discharges one assertion: cond must hold under the path condition.
func (e *Exec) check(cond *Term, msg, kind string) {
	e.path.Obligations++
	if cond.IsTrue() {
		e.path.Discharged++
		return
	}
	neg := e.tb.Not(cond)
	// violated?
	var res string
	var m Model
	// The current model is only a hint for which side to ask first; a violation
	// is reported on the solver's own sat answer for PC ∧ ¬cond, never on the
	// cached model alone.
	res, m = e.query(neg)
	switch res {
	case "unsat":
		e.path.Discharged++
		if e.W.Opts.CrossCheck {
			e.crossCheck(neg)
		}
		return
	case "unknown":
		e.inconclusive("obligation unknown: " + msg)
		return
	}
	// violation: separate listed (known) findings from unlisted ones
	var ks []*Term
	for _, k := range e.known {
		ks = append(ks, k.pred)
	}
	if len(ks) > 0 {
		notK := e.tb.Not(e.tb.Or(ks...))
		r2, m2 := e.query(e.tb.And(neg, notK))
		if r2 == "unknown" {
			e.inconclusive("obligation unknown (outside known findings): " + msg)
		}
		if r2 == "sat" {
			e.recordViolation(msg, kind, m2, "")
		}
		for _, k := range e.known {
			r3, m3 := e.query(e.tb.And(neg, k.pred))
			if r3 == "sat" {
				e.recordViolation(msg, kind, m3, k.id)
			}
		}
	} else {
		e.recordViolation(msg, kind, m, "")
	}
	// continue under the assumption that the assertion held
	e.assume(cond)
}

func (e *Exec) recordViolation(msg, kind string, m Model, known string) {
	v := Violation{Msg: msg, Kind: kind, Inputs: e.inputsFrom(m), Known: known,
		Trace: append([]int64(nil), e.trace...)}
	e.path.Violations = append(e.path.Violations, v)
}

func (e *Exec) escapedPanic(gp *goPanic) {
	// The panic path is feasible (branches are only taken when satisfiable).
	e.path.Obligations++
	if e.panicsAre == "ignore" {
		e.path.Discharged++
		return
	}
	m := e.model
	if m == nil {
		_, m = e.query(e.tb.True)
	}
	e.recordViolation("panic: "+gp.Msg+" @"+gp.Pos, "panic", m, e.knownPanic(m))
}

func (e *Exec) knownPanic(m Model) string {
	for _, k := range e.known {
		if r := e.tb.Eval(k.pred, m, map[int]*Term{}); r != nil && r.Const && r.B {
			return k.id
		}
	}
	return ""
}

func (e *Exec) crossCheck(neg *Term) {
	e.flush()
	script := e.sol.Script(neg)
	e.W.crossMu.Lock()
	e.W.crossScripts = append(e.W.crossScripts, script)
	e.W.crossMu.Unlock()
}

// inputsFrom renders the named harness inputs under a model.
func (e *Exec) inputsFrom(m Model) map[string]string {
	out := map[string]string{}
	if m == nil {
		m = Model{}
	}
	cache := map[int]*Term{}
	seq := map[string]int{}
	for _, nv := range e.namedInfo {
		// key = the name as the native API will ask for it: name, name!1, name!2 ...
		if nv.Kind != "clock" {
			n := seq[nv.Name]
			seq[nv.Name] = n + 1
			if n > 0 {
				nv.Name = fmt.Sprintf("%s!%d", nv.Name, n)
			}
		}
		switch nv.Kind {
		case "bytes", "string":
			bs := nv.Bytes
			b := make([]byte, len(bs))
			for i, t := range bs {
				if c := e.tb.Eval(t, m, cache); c != nil && c.Const {
					b[i] = byte(c.I.Int64())
				}
			}
			out[nv.Name] = fmt.Sprintf("%q", string(b))
		default:
			c := e.tb.Eval(nv.Term, m, cache)
			if c == nil || !c.Const {
				out[nv.Name] = "?"
				continue
			}
			switch c.S.K {
			case KBool:
				out[nv.Name] = fmt.Sprint(c.B)
			case KFP:
				out[nv.Name] = fmt.Sprintf("%v", c.F)
			case KInt:
				out[nv.Name] = c.I.String()
			case KBV:
				if nv.Kind == "uint64" || nv.Kind == "byte" || nv.Kind == "uint32" || nv.Kind == "uint16" {
					out[nv.Name] = c.I.String()
				} else {
					out[nv.Name] = toSigned(c.I, c.S.W).String()
				}
			}
		}
	}
	// engine-level choices
	return out
}
