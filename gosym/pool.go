package gosym

import (
	"golang.org/x/tools/go/ssa"
)

func init() {
	extraIntrinsics = append(extraIntrinsics, func(w *World) {
		V := VerifPkgPath + "."
		// OneOfInt64(name, vals...): a value selected from a finite pool by a
		// solver-level selector (an ite-tree of constants; no fork).
		w.reg(V+"OneOfInt64", func(e *Exec, fn *ssa.Function, a []Value) Value {
			nm := e.argStr(a[0], "verif name")
			sl := a[1].(SliceV)
			if sl.Len == 0 {
				e.abort("harness-error", "OneOfInt64 without options")
			}
			vals := make([]*Term, sl.Len)
			for i := range vals {
				vals[i] = sl.Arr.Kids[sl.Off+i].V.(*Term)
			}
			if len(vals) == 1 {
				return vals[0]
			}
			sel := e.newIntVar(nm, niInt)
			e.namedInfo = append(e.namedInfo, NamedVar{Name: nm, Kind: "int64", Term: sel})
			e.assume(e.inRange(sel, niInt, len(vals)))
			res := vals[len(vals)-1]
			for i := len(vals) - 2; i >= 0; i-- {
				res = e.tb.Ite(e.tb.Eq(sel, e.idxConst(sel, i)), vals[i], res)
			}
			return res
		})
	})
}

func init() {
	extraIntrinsics = append(extraIntrinsics, func(w *World) {
		// strconv.ParseFloat: exact for concrete text; for symbolic text an
		// uninterpreted function of the bytes (value) and an uninterpreted
		// predicate (ok), so equal texts parse equally and nothing else is known.
		w.reg("strconv.ParseFloat", func(e *Exec, fn *ssa.Function, a []Value) Value {
			s := e.plainStr(a[0].(*StrV))
			bits := e.argInt(a[1], "ParseFloat bitSize")
			errT := fn.Signature.Results().At(1).Type()
			if cs, ok := e.concStr(s); ok {
				f, err := strconvParseFloat(cs, bits)
				if err != nil {
					return TupleV{e.tb.FP(64, f), e.errorValue(err.Error())}
				}
				return TupleV{e.tb.FP(64, f), e.zero(errT)}
			}
			val := e.tb.UF(sanitize("parsefloat_val_len")+itoa(len(s.B)), SFP(64), s.B...)
			ok := e.tb.UF(sanitize("parsefloat_ok_len")+itoa(len(s.B)), SBool, s.B...)
			if e.branch(ok) {
				return TupleV{val, e.zero(errT)}
			}
			return TupleV{e.tb.FP(64, 0), e.errorValue("strconv.ParseFloat: parsing <symbolic>: invalid syntax")}
		})
	})
}

func init() {
	extraIntrinsics = append(extraIntrinsics, func(w *World) {
		V := VerifPkgPath + "."
		// FiberHeader(name, value): what (*fiber.Ctx).Get(name) returns from now on.
		w.reg(V+"FiberHeader", func(e *Exec, fn *ssa.Function, a []Value) Value {
			e.env["fiber.header:"+e.argStr(a[0], "header name")] = a[1]
			return nil
		})
		w.reg("(*github.com/gofiber/fiber/v2.Ctx).Get", func(e *Exec, fn *ssa.Function, a []Value) Value {
			name := e.argStr(a[1], "header name")
			if v, ok := e.env["fiber.header:"+name]; ok {
				return v
			}
			// default value argument, else ""
			if len(a) > 2 {
				if sl, ok := a[2].(SliceV); ok && sl.Len > 0 {
					return sl.Arr.Kids[sl.Off].V
				}
			}
			return &StrV{}
		})
	})
}
