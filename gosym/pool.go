package gosym

import (
	"go/types"

	"golang.org/x/tools/go/ssa"
)

func init() {
	extraIntrinsics = append(extraIntrinsics, func(w *World) {
		V := VerifPkgPath + "."
		// OneOfInt64(name, vals...): a value selected from a finite pool by a
		// solver-level selector (an ite-tree of constants; no fork).
		w.reg(V+"OneOfInt64", func(e *Exec, fn *ssa.Function, a []Value) Value {
			nm := e.argStr(a[0], "verif name")
			sl := a[1].(SliceV)
			if sl.Len == 0 {
				e.abort("harness-error", "OneOfInt64 without options")
			}
			vals := make([]*Term, sl.Len)
			for i := range vals {
				vals[i] = sl.Arr.Kids[sl.Off+i].V.(*Term)
			}
			if len(vals) == 1 {
				return vals[0]
			}
			sel := e.newIntVar(nm, niInt)
			e.namedInfo = append(e.namedInfo, NamedVar{Name: nm, Kind: "int64", Term: sel})
			e.assume(e.inRange(sel, niInt, len(vals)))
			res := vals[len(vals)-1]
			for i := len(vals) - 2; i >= 0; i-- {
				res = e.tb.Ite(e.tb.Eq(sel, e.idxConst(sel, i)), vals[i], res)
			}
			return res
		})
	})
}

func init() {
	extraIntrinsics = append(extraIntrinsics, func(w *World) {
		// strconv.ParseFloat: exact for concrete text; for symbolic text an
		// uninterpreted function of the bytes (value) and an uninterpreted
		// predicate (ok), so equal texts parse equally and nothing else is known.
		w.reg("strconv.ParseFloat", func(e *Exec, fn *ssa.Function, a []Value) Value {
			s := e.plainStr(a[0].(*StrV))
			bits := e.argInt(a[1], "ParseFloat bitSize")
			errT := fn.Signature.Results().At(1).Type()
			if cs, ok := e.concStr(s); ok {
				f, err := strconvParseFloat(cs, bits)
				if err != nil {
					return TupleV{e.tb.FP(64, f), e.errorValue(err.Error())}
				}
				return TupleV{e.tb.FP(64, f), e.zero(errT)}
			}
			val := e.tb.UF(sanitize("parsefloat_val_len")+itoa(len(s.B)), SFP(64), s.B...)
			ok := e.tb.UF(sanitize("parsefloat_ok_len")+itoa(len(s.B)), SBool, s.B...)
			if e.branch(ok) {
				return TupleV{val, e.zero(errT)}
			}
			return TupleV{e.tb.FP(64, 0), e.errorValue("strconv.ParseFloat: parsing <symbolic>: invalid syntax")}
		})
	})
}

func init() {
	extraIntrinsics = append(extraIntrinsics, func(w *World) {
		V := VerifPkgPath + "."
		// FiberHeader(name, value): what (*fiber.Ctx).Get(name) returns from now on.
		w.reg(V+"FiberHeader", func(e *Exec, fn *ssa.Function, a []Value) Value {
			e.env["fiber.header:"+e.argStr(a[0], "header name")] = a[1]
			return nil
		})
		w.reg("(*github.com/gofiber/fiber/v2.Ctx).Get", func(e *Exec, fn *ssa.Function, a []Value) Value {
			name := e.argStr(a[1], "header name")
			if v, ok := e.env["fiber.header:"+name]; ok {
				return v
			}
			// default value argument, else ""
			if len(a) > 2 {
				if sl, ok := a[2].(SliceV); ok && sl.Len > 0 {
					return sl.Arr.Kids[sl.Off].V
				}
			}
			return &StrV{}
		})
	})
}

func init() {
	extraIntrinsics = append(extraIntrinsics, func(w *World) {
		// hash/crc32 streaming digest: accumulate the bytes written; Sum32 is the
		// same uninterpreted function ChecksumIEEE uses, so a two-part Write and a
		// one-shot checksum of the concatenation agree.
		w.reg("hash/crc32.NewIEEE", func(e *Exec, fn *ssa.Function, a []Value) Value {
			t := e.lookupType("hash/crc32", "digest")
			l := e.newLoc(t)
			if e.crcBuf == nil {
				e.crcBuf = map[*Loc][]*Term{}
			}
			e.crcBuf[l] = []*Term{}
			return IfaceV{T: types.NewPointer(t), V: Ptr{L: l}}
		})
		w.reg("hash/crc32.New", w.intr["hash/crc32.NewIEEE"])
		w.reg("(*hash/crc32.digest).Write", func(e *Exec, fn *ssa.Function, a []Value) Value {
			l := a[0].(Ptr).L
			bs := e.sliceBytes(a[1].(SliceV))
			e.crcBuf[l] = append(e.crcBuf[l], bs...)
			return TupleV{e.mkInt(len(bs)), e.zero(e.errT())}
		})
		w.reg("(*hash/crc32.digest).Sum32", func(e *Exec, fn *ssa.Function, a []Value) Value {
			return e.ufBytes("crc32", e.crcBuf[a[0].(Ptr).L], 32)
		})
		w.reg("(*hash/crc32.digest).Reset", func(e *Exec, fn *ssa.Function, a []Value) Value {
			e.crcBuf[a[0].(Ptr).L] = []*Term{}
			return nil
		})
	})
}

func init() {
	extraIntrinsics = append(extraIntrinsics, func(w *World) {
		V := VerifPkgPath + "."
		w.reg(V+"LargeAllocAs", func(e *Exec, fn *ssa.Function, a []Value) Value {
			e.largeAlloc = e.argInt(a[0], "LargeAllocAs")
			return nil
		})
		// ClockFixed(ns): time.Now() returns this constant instant from now on (ns < 0: back to symbolic)
		w.reg(V+"ClockFixed", func(e *Exec, fn *ssa.Function, a []Value) Value {
			ns := e.argInt(a[0], "ClockFixed")
			if ns < 0 {
				e.clockFixed = nil
			} else {
				e.clockFixed = e.tb.Inti(int64(ns))
			}
			return nil
		})
	})
}
