package gosym

import (
	"runtime"
	"strconv"
	"time"

	"golang.org/x/tools/go/ssa"
)

// Thread model: see threads_impl (cooperative scheduler whose choices are
// engine decisions). In single-thread mode yield is a no-op and a blocking
// wait that cannot make progress is a deadlock.

// threadSet: a cooperative scheduler. Every symbolic thread runs in its own host
// goroutine but only one of them runs at a time (baton passing), so the executor's state
// needs no locking. Context switches happen only at yield points (sync, sync/atomic,
// channel operations, runtime.Gosched, verif.Yield); which runnable thread continues is an
// engine decision (explored like a branch), bounded by a maximum number of preemptions.
type threadSet struct {
	ths         []*symThread
	cur         *symThread
	events      chan threadEvent
	dead        bool
	preemptions int
	maxPreempt  int
	switches    int
}

type symThread struct {
	id      int
	resume  chan struct{}
	done    bool
	blocked func() bool
	why     string
	fv      *FuncV
	args    []Value
	// per-thread interpreter state
	depth     int
	callStack []string
	curFrame  *frame
	curPanic  *goPanic
}

type threadEvent struct {
	t     *symThread
	kind  string // "yield" | "blocked" | "done" | "panic"
	panic interface{}
}

func (e *Exec) yield(why string) {
	if e.threads == nil {
		return
	}
	e.threadYield(why)
}

func (e *Exec) waitUntil(cond func() bool, why string) {
	if cond() {
		return
	}
	if e.threads == nil {
		// deferred-goroutine mode: let the queued goroutines run, they may unblock us
		for len(e.pendingGo) > 0 && !cond() {
			g := e.pendingGo[0]
			e.pendingGo = e.pendingGo[1:]
			e.callFunc(g.fv, g.args, "go")
		}
		if cond() {
			return
		}
		e.abort("harness-error", "deadlock (single thread): %s", why)
	}
	e.threadWait(cond, why)
}

func (e *Exec) blockForever(why string) {
	e.waitUntil(func() bool { return false }, why)
}

func (e *Exec) doGo(fr *frame, g *ssa.Go) {
	fv, args := e.resolveCall(fr, &g.Call)
	if e.threads == nil {
		// Deferred-goroutine mode: the goroutine is queued and runs to completion the
		// next time the spawning code waits for it (WaitGroup.Wait, a blocking pipe
		// read, the end of the harness). This explores ONE schedule - the goroutine
		// runs after the code between `go` and the wait - and is recorded as such.
		e.stubs["goroutines (go statements) run to completion at the next wait point (WaitGroup.Wait / pipe read / end of harness): one schedule, no interleavings"] = true
		e.pendingGo = append(e.pendingGo, pendingGo{fv, args})
		return
	}
	e.threadSpawn(fv, args)
}

type pendingGo struct {
	fv   *FuncV
	args []Value
}

// runPendingGo runs every queued goroutine (and those they spawn) to completion.
func (e *Exec) runPendingGo() {
	for len(e.pendingGo) > 0 {
		g := e.pendingGo[0]
		e.pendingGo = e.pendingGo[1:]
		e.callFunc(g.fv, g.args, "go")
	}
}

func (e *Exec) saveThread(t *symThread) {
	t.depth, t.callStack, t.curFrame, t.curPanic = e.depth, e.callStack, e.curFrame, e.curPanic
}

func (e *Exec) loadThread(t *symThread) {
	e.depth, e.callStack, e.curFrame, e.curPanic = t.depth, t.callStack, t.curFrame, t.curPanic
}

// threadPark hands the baton back to the scheduler and waits to be resumed.
func (e *Exec) threadPark(ev threadEvent) {
	ts := e.threads
	t := ts.cur
	ev.t = t
	ts.events <- ev
	<-t.resume
	if ts.dead {
		runtime.Goexit()
	}
}

func (e *Exec) threadYield(why string) {
	if e.threads == nil || e.threads.cur == nil {
		return
	}
	e.threads.cur.why = why
	e.threadPark(threadEvent{kind: "yield"})
}

func (e *Exec) threadWait(cond func() bool, why string) {
	if e.threads.cur == nil {
		e.abort("harness-error", "deadlock: %s (outside any thread)", why)
	}
	for !cond() {
		t := e.threads.cur
		t.blocked, t.why = cond, why
		e.threadPark(threadEvent{kind: "blocked"})
		t.blocked = nil
	}
}

func (e *Exec) threadSpawn(fv *FuncV, args []Value) {
	ts := e.threads
	t := &symThread{id: len(ts.ths), resume: make(chan struct{}), fv: fv, args: args}
	ts.ths = append(ts.ths, t)
	go func() {
		<-t.resume
		if ts.dead {
			return
		}
		defer func() {
			if r := recover(); r != nil {
				ts.events <- threadEvent{t: t, kind: "panic", panic: r}
				return
			}
			ts.events <- threadEvent{t: t, kind: "done"}
		}()
		e.callFunc(t.fv, t.args, "thread")
	}()
}

func (ts *threadSet) kill() {
	ts.dead = true
	for _, t := range ts.ths {
		if !t.done {
			select {
			case t.resume <- struct{}{}:
			default:
				// the goroutine is not parked on resume (it is the one that panicked
				// and already exited, or has not started): nothing to release
				go func(t *symThread) {
					select {
					case t.resume <- struct{}{}:
					case <-time.After(2 * time.Second):
					}
				}(t)
			}
		}
	}
}

// runThreads runs fs as concurrent threads to completion under the scheduler.
func (e *Exec) runThreads(fs []*FuncV, maxPreempt int) {
	if e.threads != nil {
		e.abort("harness-error", "nested verif.Threads")
	}
	ts := &threadSet{events: make(chan threadEvent), maxPreempt: maxPreempt}
	e.threads = ts
	mainDepth, mainStack, mainFrame, mainPanic := e.depth, e.callStack, e.curFrame, e.curPanic
	for _, f := range fs {
		e.threadSpawn(f, nil)
		ts.ths[len(ts.ths)-1].callStack = append([]string(nil), mainStack...)
		ts.ths[len(ts.ths)-1].depth = mainDepth
	}
	e.stubs["goroutines under verif.Threads: cooperative scheduler, context switches only at sync / sync/atomic / channel operations and verif.Yield points, sequentially consistent memory between them; every schedule within the preemption bound is explored"] = true
	defer func() {
		if r := recover(); r != nil {
			ts.kill()
			e.threads = nil
			e.depth, e.callStack, e.curFrame, e.curPanic = mainDepth, mainStack, mainFrame, mainPanic
			panic(r)
		}
	}()
	var last *symThread
	for {
		var runnable []*symThread
		alive := 0
		for _, t := range ts.ths {
			if t.done {
				continue
			}
			alive++
			if t.blocked == nil || t.blocked() {
				runnable = append(runnable, t)
			}
		}
		if alive == 0 {
			break
		}
		if len(runnable) == 0 {
			why := ""
			for _, t := range ts.ths {
				if !t.done {
					why += " [thread " + strconv.Itoa(t.id) + ": " + t.why + "]"
				}
			}
			e.check(e.tb.False, "deadlock: every live goroutine is blocked"+why, "assert")
			e.abort("infeasible", "deadlock")
		}
		var next *symThread
		lastRunnable := false
		for _, t := range runnable {
			if t == last {
				lastRunnable = true
			}
		}
		if lastRunnable && ts.preemptions >= ts.maxPreempt {
			next = last // preemption budget used up: keep running the same thread
		} else {
			k := e.choose(len(runnable), "sched")
			next = runnable[k]
			if lastRunnable && next != last {
				ts.preemptions++
			}
		}
		ts.switches++
		if ts.switches > 4000 {
			e.abort("bound-exceeded", "more than 4000 scheduling steps")
		}
		ts.cur = next
		e.loadThread(next)
		next.resume <- struct{}{}
		ev := <-ts.events
		e.saveThread(ev.t)
		ts.cur = nil
		last = ev.t
		switch ev.kind {
		case "done":
			ev.t.done = true
		case "panic":
			ev.t.done = true
			panic(ev.panic)
		}
	}
	e.threads = nil
	e.depth, e.callStack, e.curFrame, e.curPanic = mainDepth, mainStack, mainFrame, mainPanic
}

func (e *Exec) finishThreads() {}

func init() {
	extraIntrinsics = append(extraIntrinsics, func(w *World) {
		V := VerifPkgPath + "."
		// Threads(fs ...func()): run fs concurrently under the symbolic scheduler.
		w.reg(V+"Threads", func(e *Exec, fn *ssa.Function, a []Value) Value {
			sl := a[0].(SliceV)
			var fs []*FuncV
			for i := 0; i < sl.Len; i++ {
				f, ok := e.load(sl.Arr.Kids[sl.Off+i]).(*FuncV)
				if !ok || f == nil {
					e.abort("harness-error", "verif.Threads: nil func")
				}
				fs = append(fs, f)
			}
			e.runThreads(fs, e.W.Opts.MaxPreempt)
			return nil
		})
		w.reg(V+"Yield", func(e *Exec, fn *ssa.Function, a []Value) Value { e.yield("verif.Yield"); return nil })
		// Await(cond func() bool): block the calling thread until cond() holds
		w.reg(V+"Await", func(e *Exec, fn *ssa.Function, a []Value) Value {
			f, ok := a[0].(*FuncV)
			if !ok || f == nil {
				e.abort("harness-error", "verif.Await: nil func")
			}
			e.waitUntil(func() bool {
				r, ok := e.callFunc(f, nil, "await").(*Term)
				if !ok || !r.Const {
					e.ooe("verif.Await: condition is not concrete")
				}
				return r.IsTrue()
			}, "verif.Await")
			return nil
		})
	})
}
