package gosym

import (
	"golang.org/x/tools/go/ssa"
)

// Thread model: see threads_impl (cooperative scheduler whose choices are
// engine decisions). In single-thread mode yield is a no-op and a blocking
// wait that cannot make progress is a deadlock.

type threadSet struct {
	n int
}

func (e *Exec) yield(why string) {
	if e.threads == nil {
		return
	}
	e.threadYield(why)
}

func (e *Exec) waitUntil(cond func() bool, why string) {
	if cond() {
		return
	}
	if e.threads == nil {
		e.abort("harness-error", "deadlock (single thread): %s", why)
	}
	e.threadWait(cond, why)
}

func (e *Exec) blockForever(why string) {
	e.waitUntil(func() bool { return false }, why)
}

func (e *Exec) doGo(fr *frame, g *ssa.Go) {
	fv, args := e.resolveCall(fr, &g.Call)
	if e.threads == nil {
		e.ooe("go statement outside thread mode (%s)", fv.Name)
	}
	e.threadSpawn(fv, args)
}

func (e *Exec) threadYield(why string)                 {}
func (e *Exec) threadWait(cond func() bool, why string) { e.abort("harness-error", "deadlock: %s", why) }
func (e *Exec) threadSpawn(fv *FuncV, args []Value)    {}
func (e *Exec) finishThreads()                         {}
