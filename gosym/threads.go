package gosym

import (
	"golang.org/x/tools/go/ssa"
)

// Thread model: see threads_impl (cooperative scheduler whose choices are
// engine decisions). In single-thread mode yield is a no-op and a blocking
// wait that cannot make progress is a deadlock.

type threadSet struct {
	n int
}

func (e *Exec) yield(why string) {
	if e.threads == nil {
		return
	}
	e.threadYield(why)
}

func (e *Exec) waitUntil(cond func() bool, why string) {
	if cond() {
		return
	}
	if e.threads == nil {
		// deferred-goroutine mode: let the queued goroutines run, they may unblock us
		for len(e.pendingGo) > 0 && !cond() {
			g := e.pendingGo[0]
			e.pendingGo = e.pendingGo[1:]
			e.callFunc(g.fv, g.args, "go")
		}
		if cond() {
			return
		}
		e.abort("harness-error", "deadlock (single thread): %s", why)
	}
	e.threadWait(cond, why)
}

func (e *Exec) blockForever(why string) {
	e.waitUntil(func() bool { return false }, why)
}

func (e *Exec) doGo(fr *frame, g *ssa.Go) {
	fv, args := e.resolveCall(fr, &g.Call)
	if e.threads == nil {
		// Deferred-goroutine mode: the goroutine is queued and runs to completion the
		// next time the spawning code waits for it (WaitGroup.Wait, a blocking pipe
		// read, the end of the harness). This explores ONE schedule - the goroutine
		// runs after the code between `go` and the wait - and is recorded as such.
		e.stubs["goroutines (go statements) run to completion at the next wait point (WaitGroup.Wait / pipe read / end of harness): one schedule, no interleavings"] = true
		e.pendingGo = append(e.pendingGo, pendingGo{fv, args})
		return
	}
	e.threadSpawn(fv, args)
}

func (e *Exec) threadYield(why string)                 {}
func (e *Exec) threadWait(cond func() bool, why string) { e.abort("harness-error", "deadlock: %s", why) }
func (e *Exec) threadSpawn(fv *FuncV, args []Value)    {}
func (e *Exec) finishThreads()                         {}

type pendingGo struct {
	fv   *FuncV
	args []Value
}

// runPendingGo runs every queued goroutine (and those they spawn) to completion.
func (e *Exec) runPendingGo() {
	for len(e.pendingGo) > 0 {
		g := e.pendingGo[0]
		e.pendingGo = e.pendingGo[1:]
		e.callFunc(g.fv, g.args, "go")
	}
}
