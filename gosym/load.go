package gosym

import (
	"fmt"
	"go/token"
	"go/types"
	"os"
	"runtime"
	"strings"
	"sync"
	"sync/atomic"
	"time"

	"golang.org/x/tools/go/packages"
	"golang.org/x/tools/go/ssa"
	"golang.org/x/tools/go/ssa/ssautil"
)

const VerifPkgPath = "github.com/basekick-labs/arc/internal/zzverif"

type Options struct {
	RepoDir         string
	Pkg             string            // package pattern relative to RepoDir, e.g. ./internal/governance
	Overlay         map[string][]byte // absolute path -> content
	Tags            []string
	Harness         string
	Mode            string // bv | lia
	Workers         int
	Unwind          int
	MaxPreempt      int
	MaxSteps        int
	MaxPaths        int
	StartPrefix     []int64 // debugging: explore only below this decision prefix
	Budget          time.Duration
	QueryTimeoutMs  int
	KeepSamples     int
	StopOnViolation bool
	CrossCheck      bool
	MapOrderReverse bool
	KnownOpen       map[string]bool   // ids of listed, unfixed known findings
	Params          map[string]string // harness parameters (verif.Param)
	GoBin           string            // directory holding the go tool used for loading
	Stubs           map[string]string // function name -> stub kind (true|false|zero)
}

type World struct {
	Opts    Options
	Prog    *ssa.Program
	Fset    *token.FileSet
	Pkgs    []*packages.Package
	Main    *ssa.Package
	Harness *ssa.Function

	intr      map[string]intrinsicFn
	intrPref  []prefIntr
	buildMu   sync.Mutex
	builtPkgs sync.Map // *ssa.Package -> true once Build() has returned
	retries, retriesResolved atomic.Int64 // unknown answers retried in a fresh context / of those decided
	qmu       sync.Mutex
	qcond     *sync.Cond
	queue     []*job
	active    int
	stop      bool
	crossMu   sync.Mutex
	crossScripts []string
	nameMu    sync.Mutex
	fnNames   map[*ssa.Function]*fnMeta
	LoadTime  time.Duration
	NPackages int
}

type fnMeta struct {
	name string
	intr intrinsicFn
	has  bool
}

type prefIntr struct {
	prefix string
	fn     intrinsicFn
}

type intrinsicFn func(e *Exec, fn *ssa.Function, args []Value) Value

// Load type-checks the target package (with overlay) and builds SSA for the
// whole dependency closure lazily.
func Load(opts Options) (*World, error) {
	t0 := time.Now()
	if opts.Workers <= 0 {
		opts.Workers = runtime.NumCPU()
	}
	if opts.MaxSteps == 0 {
		opts.MaxSteps = 5_000_000
	}
	if opts.QueryTimeoutMs == 0 {
		opts.QueryTimeoutMs = 20000
	}
	if opts.Mode == "" {
		opts.Mode = "bv"
	}
	env := os.Environ()
	gobin := opts.GoBin
	if gobin == "" {
		gobin = "/opt/veriftools/go1.26.8/bin"
	}
	env = append(env, "PATH="+gobin+":"+os.Getenv("PATH"), "GOFLAGS=-mod=mod", "GOPROXY=off", "GOTOOLCHAIN=local")
	cfg := &packages.Config{
		Mode:       packages.LoadAllSyntax,
		Dir:        opts.RepoDir,
		Env:        env,
		Overlay:    opts.Overlay,
		BuildFlags: []string{"-tags=" + strings.Join(opts.Tags, ",")},
	}
	pkgs, err := packages.Load(cfg, strings.Fields(opts.Pkg)...)
	if err != nil {
		return nil, err
	}
	var errs []string
	packages.Visit(pkgs, nil, func(p *packages.Package) {
		for _, e := range p.Errors {
			errs = append(errs, e.Error())
		}
	})
	if len(errs) > 0 {
		if len(errs) > 10 {
			errs = errs[:10]
		}
		return nil, fmt.Errorf("load errors:\n%s", strings.Join(errs, "\n"))
	}
	prog, spkgs := ssautil.AllPackages(pkgs, ssa.InstantiateGenerics)
	w := &World{Opts: opts, Prog: prog, Pkgs: pkgs, fnNames: map[*ssa.Function]*fnMeta{}}
	w.qcond = sync.NewCond(&w.qmu)
	w.Fset = prog.Fset
	if len(spkgs) == 0 || spkgs[0] == nil {
		return nil, fmt.Errorf("no SSA package for %s", opts.Pkg)
	}
	w.Main = spkgs[0]
	w.Main.Build()
	n := 0
	packages.Visit(pkgs, nil, func(p *packages.Package) { n++ })
	w.NPackages = n
	if opts.Harness != "" {
		w.Harness = w.Main.Func(opts.Harness)
		if w.Harness == nil {
			return nil, fmt.Errorf("harness function %s not found in %s", opts.Harness, w.Main.Pkg.Path())
		}
	}
	w.registerIntrinsics()
	w.LoadTime = time.Since(t0)
	return w, nil
}

func (w *World) pos(p token.Pos) string {
	if !p.IsValid() {
		return "?"
	}
	ps := w.Fset.Position(p)
	return fmt.Sprintf("%s:%d", ps.Filename, ps.Line)
}

// ensureBuilt makes sure the SSA body of fn is complete before a worker reads it.
// Package builds run one at a time under buildMu. fn.Blocks must not be used as
// the "already built" test: while another worker is building fn's package the
// builder fills Blocks incrementally (and only removes its provisional
// ssa:deferstack call when the body is finished), so a half-built body would be
// executed. The per-package done set is the only fast path.
func (w *World) noteRetry(resolved bool) {
	w.retries.Add(1)
	if resolved {
		w.retriesResolved.Add(1)
	}
}

func (w *World) ensureBuilt(fn *ssa.Function) {
	p := fn.Pkg
	if p == nil {
		if o := fn.Origin(); o != nil {
			p = o.Pkg
		}
	}
	if p == nil {
		// synthetic wrappers are created and finished under buildMu: wait for it
		w.buildMu.Lock()
		w.buildMu.Unlock()
		return
	}
	if _, ok := w.builtPkgs.Load(p); ok {
		return
	}
	w.buildMu.Lock()
	p.Build()
	w.buildMu.Unlock()
	w.builtPkgs.Store(p, true)
}

func (w *World) lookupMethod(t types.Type, m *types.Func) *ssa.Function {
	w.buildMu.Lock()
	defer w.buildMu.Unlock()
	return w.Prog.LookupMethod(t, m.Pkg(), m.Name())
}

func (w *World) strCache(e *Exec, s string) (*StrV, bool) {
	if c, ok := e.strs[s]; ok {
		return c, true
	}
	if len(s) > 64 {
		return nil, false
	}
	b := make([]*Term, len(s))
	for i := 0; i < len(s); i++ {
		b[i] = e.byteConst(s[i])
	}
	c := &StrV{B: b}
	e.strs[s] = c
	return c, true
}

func (w *World) intrinsic(fn *ssa.Function, name string) (intrinsicFn, bool) {
	w.nameMu.Lock()
	m, ok := w.fnNames[fn]
	w.nameMu.Unlock()
	if ok {
		return m.intr, m.has
	}
	m = &fnMeta{name: name}
	key := name
	if o := fn.Origin(); o != nil {
		key = o.String()
	}
	if in, ok := w.intr[key]; ok {
		m.intr, m.has = in, true
	} else {
		for _, p := range w.intrPref {
			if strings.HasPrefix(key, p.prefix) {
				m.intr, m.has = p.fn, true
				break
			}
		}
	}
	w.nameMu.Lock()
	w.fnNames[fn] = m
	w.nameMu.Unlock()
	return m.intr, m.has
}

func (w *World) newExec() (*Exec, error) {
	tb := NewTB()
	sol, err := NewSolver(tb, w.Opts.QueryTimeoutMs)
	if err != nil {
		return nil, err
	}
	e := &Exec{W: w, tb: tb, sol: sol, mode: w.Opts.Mode,
		globals: map[*ssa.Global]*Loc{}, inited: map[*ssa.Package]bool{},
		stubs: map[string]bool{}, encoded: map[string]bool{}, strs: map[string]*StrV{},
		maxSteps: w.Opts.MaxSteps}
	return e, nil
}

// ---- globals and package initialisation ----

func (e *Exec) globalLoc(g *ssa.Global) *Loc {
	if l, ok := e.globals[g]; ok {
		return l
	}
	if g.Pkg != nil && !e.inited[g.Pkg] {
		e.initPackage(g.Pkg)
		if l, ok := e.globals[g]; ok {
			return l
		}
	}
	l := e.newLoc(g.Type().(*types.Pointer).Elem())
	l.Global = g
	e.freeze(l)
	e.globals[g] = l
	return l
}

func (e *Exec) freeze(l *Loc) {
	l.Frozen = true
	for _, k := range l.Kids {
		e.freeze(k)
	}
}

func (e *Exec) restoreGlobals() {
	for i := len(e.undo) - 1; i >= 0; i-- {
		u := e.undo[i]
		if !u.l.Comp {
			u.l.V = u.v
		}
	}
	e.undo = e.undo[:0]
}

// initPackage runs the package initialiser concretely, tolerating anything
// outside the encoding (the affected globals become opaque values).
func (e *Exec) initPackage(p *ssa.Package) {
	e.inited[p] = true
	if os.Getenv("GOSYM_DEBUG") != "" {
		t0 := time.Now()
		fmt.Fprintf(os.Stderr, "init %s ...\n", p.Pkg.Path())
		defer func() { fmt.Fprintf(os.Stderr, "init %s done in %v\n", p.Pkg.Path(), time.Since(t0)) }()
	}
	// allocate all globals of the package first (init stores into them)
	for _, m := range p.Members {
		if g, ok := m.(*ssa.Global); ok {
			if _, ok := e.globals[g]; !ok {
				l := e.newLoc(g.Type().(*types.Pointer).Elem())
				l.Global = g
				e.globals[g] = l
			}
		}
	}
	initFn := p.Func("init")
	if initFn == nil {
		return
	}
	e.W.ensureBuilt(initFn)
	if initFn.Blocks == nil {
		return
	}
	savedInit, savedSteps, savedStack, savedDepth, savedUnwind := e.initMode, e.steps, e.callStack, e.depth, e.unwind
	savedUndo := e.undo
	e.initMode = true
	e.unwind = 0
	e.steps = -1 << 40
	e.callStack = nil
	e.depth = 0
	func() {
		defer func() {
			if r := recover(); r != nil {
				if _, ok := r.(*pathEnd); ok {
					return
				}
				if _, ok := r.(*goPanic); ok {
					return
				}
				if _, ok := r.(*initOOE); ok {
					return
				}
				// host panic during init: tolerate
			}
		}()
		e.callFunc(&FuncV{Fn: initFn}, nil, "init")
	}()
	e.initMode, e.steps, e.callStack, e.depth, e.unwind = savedInit, savedSteps, savedStack, savedDepth, savedUnwind
	e.undo = savedUndo
	for _, m := range p.Members {
		if g, ok := m.(*ssa.Global); ok {
			e.freeze(e.globals[g])
		}
	}
}

// tolerantInstr executes one instruction in init mode; anything unsupported
// makes its result opaque instead of aborting.
func (e *Exec) tolerantInstr(fr *frame, ins ssa.Instruction) {
	defer func() {
		if r := recover(); r != nil {
			switch r.(type) {
			case *pathEnd:
				panic(r)
			}
			if v, ok := ins.(ssa.Value); ok {
				fr.env[v] = &Opaque{What: fmt.Sprintf("init: %v", ins)}
			}
		}
	}()
	e.instr(fr, ins)
}
