package gosym

// One long-lived solver process per worker, SMT-LIB2 over a pipe.

import (
	"bufio"
	"fmt"
	"io"
	"math"
	"math/big"
	"os"
	"os/exec"
	"strconv"
	"strings"
	"time"
)

type Solver struct {
	tb      *TB
	cmd     *exec.Cmd
	in      io.WriteCloser
	out     *bufio.Reader
	defined []map[int]bool
	decl    []map[string]bool
	lines   [][]string // transcript per scope (for standalone re-checks)
	Queries int
	Time    time.Duration
	Errors  int
	Unknown int
	timeout int
	seq     int
	cur     int // timeout currently in force (0 = timeout)
	Lost     bool
	Restarts int
	logf    *os.File
	lastErr string
}

func NewSolver(tb *TB, timeoutMs int) (*Solver, error) {
	s := &Solver{tb: tb, timeout: timeoutMs}
	if err := s.start(); err != nil {
		return nil, err
	}
	return s, nil
}

func (s *Solver) start() error {
	bin := os.Getenv("GOSYM_Z3")
	if bin == "" {
		bin = "/usr/bin/z3"
	}
	s.cmd = exec.Command(bin, "-in")
	var err error
	s.in, err = s.cmd.StdinPipe()
	if err != nil {
		return err
	}
	o, err := s.cmd.StdoutPipe()
	if err != nil {
		return err
	}
	s.cmd.Stderr = nil
	s.out = bufio.NewReaderSize(o, 1<<16)
	if err := s.cmd.Start(); err != nil {
		return err
	}
	if p := os.Getenv("GOSYM_SMTLOG"); p != "" && s.logf == nil {
		s.logf, _ = os.Create(fmt.Sprintf("%s.%d", p, s.cmd.Process.Pid))
	}
	s.defined = []map[int]bool{{}}
	s.decl = []map[string]bool{{}}
	s.lines = [][]string{{}}
	s.cur = 0
	s.raw("(set-option :print-success false)")
	s.raw(fmt.Sprintf("(set-option :timeout %d)", s.timeout))
	return nil
}

func (s *Solver) Close() {
	if s.cmd != nil {
		s.in.Close()
		s.cmd.Process.Kill()
		s.cmd.Wait()
		s.cmd = nil
	}
	if s.logf != nil {
		s.logf.Close()
	}
}

func (s *Solver) raw(l string) {
	if s.logf != nil {
		fmt.Fprintln(s.logf, l)
	}
	io.WriteString(s.in, l)
	io.WriteString(s.in, "\n")
}

func (s *Solver) line(l string) {
	s.lines[len(s.lines)-1] = append(s.lines[len(s.lines)-1], l)
	s.raw(l)
}

// Fresh replaces the solver process by a new one with an empty context. Used
// after an "unknown": a z3 context whose check-sat was interrupted by the
// timeout is not trusted for further queries.
func (s *Solver) Fresh() {
	if s.cmd != nil {
		s.in.Close()
		s.cmd.Process.Kill()
		s.cmd.Wait()
	}
	s.start()
	s.Restarts++
}

// Reset clears every assertion and declaration (back to an empty context).
func (s *Solver) Reset() {
	s.raw("(reset)")
	s.raw("(set-option :print-success false)")
	s.raw(fmt.Sprintf("(set-option :timeout %d)", s.timeout))
	s.defined = []map[int]bool{{}}
	s.decl = []map[string]bool{{}}
	s.lines = [][]string{{}}
}

// SetTimeout changes the soft per-query timeout (ms) of the running process.
func (s *Solver) SetTimeout(ms int) {
	s.cur = ms
	s.raw(fmt.Sprintf("(set-option :timeout %d)", ms))
}

// BaseTimeout is the configured per-query timeout (ms).
func (s *Solver) BaseTimeout() int { return s.timeout }

func (s *Solver) Push() {
	s.raw("(push 1)")
	s.defined = append(s.defined, map[int]bool{})
	s.decl = append(s.decl, map[string]bool{})
	s.lines = append(s.lines, nil)
}
func (s *Solver) Pop() {
	s.raw("(pop 1)")
	s.defined = s.defined[:len(s.defined)-1]
	s.decl = s.decl[:len(s.decl)-1]
	s.lines = s.lines[:len(s.lines)-1]
}

func (s *Solver) isDefined(id int) bool {
	for _, m := range s.defined {
		if m[id] {
			return true
		}
	}
	return false
}
func (s *Solver) isDecl(n string) bool {
	for _, m := range s.decl {
		if m[n] {
			return true
		}
	}
	return false
}

// emit returns the SMT text for t, first sending declarations and
// define-funs for shared subterms.
func (s *Solver) emit(t *Term) string {
	refs := map[int]int{}
	var count func(t *Term)
	count = func(t *Term) {
		refs[t.id]++
		if refs[t.id] > 1 || s.isDefined(t.id) {
			return
		}
		for _, a := range t.Args {
			count(a)
		}
	}
	count(t)
	var render func(t *Term, top bool) string
	render = func(t *Term, top bool) string {
		if t.Const {
			return s.tb.constSMT(t)
		}
		if t.Op == "var" {
			if !s.isDecl(t.Name) {
				s.decl[len(s.decl)-1][t.Name] = true
				s.line(fmt.Sprintf("(declare-const %s %s)", t.Name, t.S.SMT()))
				if t.S.K == KInt {
					if t.Lo != nil {
						s.line(fmt.Sprintf("(assert (>= %s %s))", t.Name, s.tb.constSMT(s.tb.Int(t.Lo))))
					}
					if t.Hi != nil {
						s.line(fmt.Sprintf("(assert (<= %s %s))", t.Name, s.tb.constSMT(s.tb.Int(t.Hi))))
					}
				}
			}
			return t.Name
		}
		if s.isDefined(t.id) {
			return fmt.Sprintf("t!%d", t.id)
		}
		if t.Op == "uf" && !s.isDecl("uf:"+t.Name) {
			s.decl[len(s.decl)-1]["uf:"+t.Name] = true
			s.line(s.tb.ufs[t.Name])
		}
		var sb strings.Builder
		if t.Op == "int_to_fp" {
			fmt.Fprintf(&sb, "((_ to_fp %s) RNE (to_real %s))", map[int]string{32: "8 24", 64: "11 53"}[t.S.W], render(t.Args[0], false))
		} else if t.Op == "fp_to_int" {
			fmt.Fprintf(&sb, "(to_int (fp.to_real (fp.roundToIntegral RTZ %s)))", render(t.Args[0], false))
		} else if len(t.Args) == 0 {
			sb.WriteString(s.tb.opSMT(t))
		} else {
			sb.WriteByte('(')
			sb.WriteString(s.tb.opSMT(t))
			for _, a := range t.Args {
				sb.WriteByte(' ')
				sb.WriteString(render(a, false))
			}
			sb.WriteByte(')')
		}
		if !top && refs[t.id] > 1 {
			s.defined[len(s.defined)-1][t.id] = true
			s.line(fmt.Sprintf("(define-fun t!%d () %s %s)", t.id, t.S.SMT(), sb.String()))
			return fmt.Sprintf("t!%d", t.id)
		}
		return sb.String()
	}
	return render(t, true)
}

func (s *Solver) Assert(t *Term) {
	if t.IsTrue() {
		return
	}
	txt := s.emit(t)
	s.line("(assert " + txt + ")")
}

func (s *Solver) readLine() string {
	l, err := s.out.ReadString('\n')
	if err != nil {
		return "(error \"solver died: " + err.Error() + "\")"
	}
	return strings.TrimSpace(l)
}

// Check runs check-sat under the current assertions plus the extra assumption.
func (s *Solver) Check(assume *Term) string {
	s.Queries++
	t0 := time.Now()
	defer func() { s.Time += time.Since(t0) }()
	if assume != nil {
		if assume.IsFalse() {
			return "unsat"
		}
		if assume.IsTrue() {
			assume = nil
		}
	}
	if assume != nil {
		txt := s.emit(assume)
		s.raw("(push 1)")
		s.raw("(assert " + txt + ")")
		s.raw("(check-sat)")
	} else {
		s.raw("(check-sat)")
	}
	res := s.readResult()
	if assume != nil && !s.Lost {
		s.raw("(pop 1)")
	}
	return res
}

// sync sends an echo marker and reads every output line up to it, so that the
// answer to a command can never be confused with a late or extra line of an
// earlier one (error text, a result printed after a timeout, ...).
func (s *Solver) sync() (lines []string, died bool) {
	s.seq++
	mark := fmt.Sprintf("#sync-%d#", s.seq)
	s.raw("(echo \"" + mark + "\")")
	for {
		l, err := s.out.ReadString('\n')
		if err != nil {
			return lines, true
		}
		l = strings.TrimSpace(l)
		if strings.Contains(l, mark) {
			return lines, false
		}
		if l != "" {
			lines = append(lines, l)
		}
	}
}

func (s *Solver) readResult() string {
	wd := s.watchdog()
	defer wd.Stop()
	lines, died := s.sync()
	if died {
		s.Errors++
		s.lastErr = "solver died"
		// restart; context lost => caller treats as unknown
		s.restartAfterDeath()
		return "unknown"
	}
	res := ""
	for _, l := range lines {
		switch {
		case l == "sat" || l == "unsat" || l == "unknown":
			if res == "" {
				res = l
			} else {
				// two answers to one check-sat: do not trust either
				s.Errors++
				s.lastErr = "duplicate result: " + res + " / " + l
				res = "unknown"
			}
		default:
			// an (error ...) line or anything unexpected makes the answer inconclusive:
			// z3 can drop a command it rejects and still answer the rest
			s.Errors++
			s.lastErr = l
			if res == "" || res == "sat" || res == "unsat" {
				res = "unknown"
			}
		}
	}
	if res == "" {
		s.Errors++
		s.lastErr = "no result line"
		res = "unknown"
	}
	if res == "unknown" {
		s.Unknown++
	}
	return res
}

// CheckModel runs check-sat with the extra assumption and, when sat, returns
// values for the given variables.
func (s *Solver) CheckModel(assume *Term, vars []*Term) (string, Model) {
	s.Queries++
	t0 := time.Now()
	defer func() { s.Time += time.Since(t0) }()
	if assume != nil && assume.IsFalse() {
		return "unsat", nil
	}
	var txt string
	if assume != nil && !assume.IsTrue() {
		txt = s.emit(assume)
	}
	var names []string
	for _, v := range vars {
		names = append(names, s.emit(v))
	}
	s.raw("(push 1)")
	if txt != "" {
		s.raw("(assert " + txt + ")")
	}
	s.raw("(check-sat)")
	res := s.readResult()
	var m Model
	if res == "sat" && len(names) > 0 {
		s.raw("(get-value (" + strings.Join(names, " ") + "))")
		wd := s.watchdog()
		lines, died := s.sync()
		wd.Stop()
		if died {
			s.Errors++
			s.lastErr = "solver died in get-value"
			s.restartAfterDeath()
			return "unknown", nil
		}
		m = s.parseValues(strings.Join(lines, "\n"), vars)
	}
	if !s.Lost {
		s.raw("(pop 1)")
	}
	return res, m
}

func (s *Solver) readSexp() string {
	var sb strings.Builder
	depth := 0
	started := false
	for {
		r, _, err := s.out.ReadRune()
		if err != nil {
			return sb.String()
		}
		if !started {
			if r == '(' {
				started = true
			} else {
				continue
			}
		}
		sb.WriteRune(r)
		if r == '(' {
			depth++
		} else if r == ')' {
			depth--
			if depth == 0 {
				return sb.String()
			}
		}
	}
}

// ---- s-expression parsing for get-value ----

type sx struct {
	atom string
	list []*sx
}

func parseSx(s string) *sx {
	pos := 0
	var parse func() *sx
	parse = func() *sx {
		for pos < len(s) && (s[pos] == ' ' || s[pos] == '\n' || s[pos] == '\t' || s[pos] == '\r') {
			pos++
		}
		if pos >= len(s) {
			return nil
		}
		if s[pos] == '(' {
			pos++
			n := &sx{list: []*sx{}}
			for {
				for pos < len(s) && (s[pos] == ' ' || s[pos] == '\n' || s[pos] == '\t' || s[pos] == '\r') {
					pos++
				}
				if pos >= len(s) {
					return n
				}
				if s[pos] == ')' {
					pos++
					return n
				}
				n.list = append(n.list, parse())
			}
		}
		st := pos
		for pos < len(s) && !strings.ContainsRune(" \n\t\r()", rune(s[pos])) {
			pos++
		}
		return &sx{atom: s[st:pos]}
	}
	return parse()
}

// parseValues returns nil unless every requested variable has a parsed value:
// a partial model would be completed with defaults that need not satisfy the
// assertions.
func (s *Solver) parseValues(txt string, vars []*Term) Model {
	m := Model{}
	txt = strings.TrimSpace(txt)
	if !strings.HasPrefix(txt, "((") {
		s.Errors++
		s.lastErr = "get-value: " + txt
		return nil
	}
	root := parseSx(txt)
	if root == nil || len(root.list) != len(vars) {
		s.Errors++
		s.lastErr = "get-value: wrong arity"
		return nil
	}
	for i, pair := range root.list {
		if pair == nil || len(pair.list) != 2 {
			return nil
		}
		v := vars[i]
		c := s.parseConst(pair.list[1], v.S)
		if c == nil {
			s.Errors++
			s.lastErr = "get-value: unparsed value for " + v.Name
			return nil
		}
		m[v.Name] = c
	}
	return m
}

func (s *Solver) parseConst(x *sx, so Sort) *Term {
	tb := s.tb
	switch so.K {
	case KBool:
		return tb.Bool(x.atom == "true")
	case KBV:
		if strings.HasPrefix(x.atom, "#x") {
			v, _ := new(big.Int).SetString(x.atom[2:], 16)
			return tb.BV(so.W, v)
		}
		if strings.HasPrefix(x.atom, "#b") {
			v, _ := new(big.Int).SetString(x.atom[2:], 2)
			return tb.BV(so.W, v)
		}
		if len(x.list) == 3 && x.list[0].atom == "_" && strings.HasPrefix(x.list[1].atom, "bv") {
			v, _ := new(big.Int).SetString(x.list[1].atom[2:], 10)
			return tb.BV(so.W, v)
		}
	case KInt:
		if x.atom != "" {
			v, ok := new(big.Int).SetString(x.atom, 10)
			if ok {
				return tb.Int(v)
			}
		}
		if len(x.list) == 2 && x.list[0].atom == "-" {
			v, ok := new(big.Int).SetString(x.list[1].atom, 10)
			if ok {
				return tb.Int(v.Neg(v))
			}
		}
	case KFP:
		if len(x.list) == 4 && x.list[0].atom == "fp" {
			sg := bitsOf(x.list[1].atom)
			ex := bitsOf(x.list[2].atom)
			mn := bitsOf(x.list[3].atom)
			if so.W == 64 {
				b := sg<<63 | ex<<52 | mn
				return tb.FP(64, math.Float64frombits(b))
			}
			b := uint32(sg<<31 | ex<<23 | mn)
			return tb.FP(32, float64(math.Float32frombits(b)))
		}
		if len(x.list) >= 2 && x.list[0].atom == "_" {
			switch x.list[1].atom {
			case "+zero":
				return tb.FP(so.W, 0)
			case "-zero":
				return tb.FP(so.W, math.Copysign(0, -1))
			case "+oo":
				return tb.FP(so.W, math.Inf(1))
			case "-oo":
				return tb.FP(so.W, math.Inf(-1))
			case "NaN":
				return tb.FP(so.W, math.NaN())
			}
		}
	}
	return nil
}

func bitsOf(a string) uint64 {
	if strings.HasPrefix(a, "#b") {
		v, _ := strconv.ParseUint(a[2:], 2, 64)
		return v
	}
	if strings.HasPrefix(a, "#x") {
		v, _ := strconv.ParseUint(a[2:], 16, 64)
		return v
	}
	return 0
}

// Script returns the standalone SMT-LIB script for the current context plus
// an optional extra assertion (used for cross-checking with other solvers).
func (s *Solver) Script(extra *Term) string {
	var txt string
	if extra != nil {
		s.Push()
		txt = s.emit(extra)
	}
	var sb strings.Builder
	for _, sc := range s.lines {
		for _, l := range sc {
			sb.WriteString(l)
			sb.WriteByte('\n')
		}
	}
	if extra != nil {
		sb.WriteString("(assert " + txt + ")\n")
		s.Pop()
	}
	sb.WriteString("(check-sat)\n")
	return sb.String()
}

// RunExternal runs a standalone script through another solver binary.
func RunExternal(bin string, args []string, script string, timeout time.Duration) string {
	f, err := os.CreateTemp("", "gosym-x-*.smt2")
	if err != nil {
		return "unknown"
	}
	defer os.Remove(f.Name())
	f.WriteString(script)
	f.Close()
	cmd := exec.Command(bin, append(args, f.Name())...)
	done := make(chan string, 1)
	go func() {
		out, _ := cmd.CombinedOutput()
		done <- string(out)
	}()
	select {
	case out := <-done:
		if strings.Contains(out, "(error") {
			return "error"
		}
		for _, l := range strings.Split(out, "\n") {
			l = strings.TrimSpace(l)
			if l == "sat" || l == "unsat" || l == "unknown" {
				return l
			}
		}
		return "unknown"
	case <-time.After(timeout):
		cmd.Process.Kill()
		return "timeout"
	}
}
