package gosym

import (
	"encoding/json"
	"fmt"
	"os"
	"os/exec"
	"path/filepath"
	"regexp"
	"strings"
	"time"
)

type ReplayFile struct {
	Property string            `json:"property"`
	Run      string            `json:"run"`
	Pkg      string            `json:"pkg"`
	Fn       string            `json:"fn"`
	Mode     string            `json:"mode"`
	Config   string            `json:"config"`
	Msg      string            `json:"violated"`
	Kind     string            `json:"kind"`
	Inputs   map[string]string `json:"inputs"`
	Params   map[string]string `json:"params"`
	Trace    []int64           `json:"engine_trace"`
	HowTo    string            `json:"how_to_replay"`
}

func writeReplay(verifDir, prop string, rc RunCfg, params map[string]string, v Violation, n int) string {
	dir := filepath.Join(verifDir, "replays", prop)
	os.MkdirAll(dir, 0o755)
	path := filepath.Join(dir, fmt.Sprintf("%s-%d.json", sanitize(rc.Name), n))
	rf := ReplayFile{Property: prop, Run: rc.Name, Pkg: rc.Pkg, Fn: rc.Fn, Mode: rc.Mode, Msg: v.Msg, Kind: v.Kind,
		Inputs: v.Inputs, Params: params, Trace: v.Trace,
		Config: filepath.Join("harness", prop, "config.json"),
		HowTo:  "bin/gosym -replay " + path}
	b, _ := json.MarshalIndent(rf, "", " ")
	os.WriteFile(path, b, 0o644)
	return path
}

var timeNowRe = regexp.MustCompile(`\btime\.Now\(\)`)
var timeSinceRe = regexp.MustCompile(`\btime\.Since\(`)

// nativeReplay runs the harness as an ordinary Go test with the model's values.
// nativeReplay retries a passing native run a few times: Go's map iteration order
// is random, and a counterexample may depend on it.
func nativeReplay(repo, verifDir, cfgDir string, cfg Config, rc RunCfg, replayPath string) (bool, string) {
	var ok bool
	var why string
	for i := 0; i < 4; i++ {
		ok, why = nativeReplayOnce(repo, verifDir, cfgDir, cfg, rc, replayPath)
		if ok || why != "native run passed" {
			return ok, why
		}
	}
	return ok, why
}

func nativeReplayOnce(repo, verifDir, cfgDir string, cfg Config, rc RunCfg, replayPath string) (bool, string) {
	verdict, detail, kind := nativeRun(repo, verifDir, cfgDir, cfg, rc, replayPath)
	switch {
	case verdict == "ERROR":
		return false, detail
	case kind == "panic" && verdict == "PANIC":
		return true, ""
	case kind != "panic" && verdict == "ASSERT-FAILED":
		return true, ""
	case verdict == "OK":
		return false, "native run passed"
	case verdict == "ASSUME-FAILED":
		return false, "native run violated an assumption"
	case verdict == "PANIC":
		return false, "native run panicked instead"
	case verdict == "TIMEOUT":
		return false, "native replay timed out"
	}
	return false, "native run gave no verdict: " + detail
}

// nativeRun runs the harness natively on the inputs of a replay/witness file and
// returns the protocol verdict: OK | ASSERT-FAILED | PANIC | ASSUME-FAILED |
// CRASHED | NONE | TIMEOUT | ERROR, some detail, and the file's kind.
func nativeRun(repo, verifDir, cfgDir string, cfg Config, rc RunCfg, replayPath string) (string, string, string) {
	raw, err := os.ReadFile(replayPath)
	if err != nil {
		return "ERROR", err.Error(), ""
	}
	var rf ReplayFile
	json.Unmarshal(raw, &rf)
	tmp, err := os.MkdirTemp("", "gosym-replay-*")
	if err != nil {
		return "ERROR", err.Error(), rf.Kind
	}
	defer os.RemoveAll(tmp)
	pkg0 := strings.Fields(rc.Pkg)[0]
	pkgDir := filepath.Join(repo, strings.TrimPrefix(pkg0, "./"))
	pkgName, err := packageName(pkgDir)
	if err != nil {
		return "ERROR", err.Error(), rf.Kind
	}
	repl := map[string]string{}
	add := func(target string, content []byte) {
		f := filepath.Join(tmp, fmt.Sprintf("f%d.go", len(repl)))
		os.WriteFile(f, content, 0o644)
		repl[target] = f
	}
	api, _ := os.ReadFile(filepath.Join(verifDir, "harness", "zzverif", "verif.go"))
	add(filepath.Join(repo, "internal", "zzverif", "verif.go"), api)
	for target, src := range cfg.Overlays {
		b, err := os.ReadFile(filepath.Join(cfgDir, src))
		if err != nil {
			return "ERROR", err.Error(), rf.Kind
		}
		add(filepath.Join(repo, target), b)
	}
	test := fmt.Sprintf("//go:build verif\n\npackage %s\n\nimport (\n\t\"testing\"\n\tzzverif \"%s\"\n)\n\nfunc TestVerifReplay(t *testing.T) { zzverif.RunReplay(%s) }\n", pkgName, VerifPkgPath, rc.Fn)
	add(filepath.Join(pkgDir, "zz_verif_replay_test.go"), []byte(test))
	// controlled clock: rewrite time.Now()/time.Since( in the package's own files
	usesClock := false
	for k := range rf.Inputs {
		if k == "now" || strings.HasPrefix(k, "now!") {
			usesClock = true
		}
	}
	ents, _ := os.ReadDir(pkgDir)
	if !usesClock {
		ents = nil
	}
	for _, en := range ents {
		n := en.Name()
		if !strings.HasSuffix(n, ".go") || strings.HasSuffix(n, "_test.go") {
			continue
		}
		src, err := os.ReadFile(filepath.Join(pkgDir, n))
		if err != nil || (!timeNowRe.Match(src) && !timeSinceRe.Match(src)) {
			continue
		}
		out := timeNowRe.ReplaceAll(src, []byte("zzverifclock.Now()"))
		out = timeSinceRe.ReplaceAll(out, []byte("zzverifclock.Since("))
		out = addImport(out, "zzverifclock \""+VerifPkgPath+"\"")
		out = append(out, []byte("\nvar _ = time.Second\n")...)
		add(filepath.Join(pkgDir, n), out)
	}
	ov, _ := json.Marshal(map[string]interface{}{"Replace": repl})
	ovPath := filepath.Join(tmp, "overlay.json")
	os.WriteFile(ovPath, ov, 0o644)
	tags := strings.Join(append([]string{"verif"}, rc.Tags...), ",")
	cmd := exec.Command("go", "test", "-tags", tags, "-overlay", ovPath, "-vet=off", "-count=1", "-run", "^TestVerifReplay$", "-v", pkg0)
	cmd.Dir = repo
	cmd.Env = append(os.Environ(), "PATH=/opt/veriftools/go1.26.8/bin:"+os.Getenv("PATH"), "GOFLAGS=-mod=mod", "GOPROXY=off", "GOTOOLCHAIN=local", "VERIF_REPLAY="+replayPath)
	done := make(chan struct{})
	var out []byte
	go func() { out, _ = cmd.CombinedOutput(); close(done) }()
	select {
	case <-done:
	case <-time.After(15 * time.Minute):
		cmd.Process.Kill()
		return "TIMEOUT", "", rf.Kind
	}
	s := string(out)
	os.WriteFile(strings.TrimSuffix(replayPath, ".json")+".native.log", out, 0o644)
	tail := s
	if len(tail) > 600 {
		tail = tail[len(tail)-600:]
	}
	switch {
	case rf.Kind == "panic" && strings.Contains(s, "VERIF-REPLAY: PANIC"):
		return "PANIC", tail, rf.Kind
	case strings.Contains(s, "VERIF-REPLAY: ASSERT-FAILED"):
		return "ASSERT-FAILED", tail, rf.Kind
	case strings.Contains(s, "VERIF-REPLAY: PANIC"):
		return "PANIC", tail, rf.Kind
	case strings.Contains(s, "VERIF-REPLAY: ASSUME-FAILED"):
		return "ASSUME-FAILED", tail, rf.Kind
	case strings.Contains(s, "VERIF-REPLAY: CRASHED"):
		return "CRASHED", tail, rf.Kind
	case strings.Contains(s, "VERIF-REPLAY: OK"):
		return "OK", tail, rf.Kind
	}
	return "NONE", tail, rf.Kind
}

func addImport(src []byte, imp string) []byte {
	s := string(src)
	i := strings.Index(s, "\nimport (")
	if i >= 0 {
		j := i + len("\nimport (")
		return []byte(s[:j] + "\n\t" + imp + s[j:])
	}
	// single import or none: add after package clause
	k := strings.Index(s, "\npackage ")
	if strings.HasPrefix(s, "package ") {
		k = 0
	} else {
		k++
	}
	end := strings.Index(s[k:], "\n")
	return []byte(s[:k+end+1] + "\nimport " + imp + "\n" + s[k+end+1:])
}

func packageName(dir string) (string, error) {
	ents, err := os.ReadDir(dir)
	if err != nil {
		return "", err
	}
	for _, en := range ents {
		if strings.HasSuffix(en.Name(), ".go") && !strings.HasSuffix(en.Name(), "_test.go") {
			b, err := os.ReadFile(filepath.Join(dir, en.Name()))
			if err != nil {
				continue
			}
			for _, l := range strings.Split(string(b), "\n") {
				l = strings.TrimSpace(l)
				if strings.HasPrefix(l, "package ") {
					return strings.Fields(l)[1], nil
				}
			}
		}
	}
	return "", fmt.Errorf("no package clause in %s", dir)
}

func replayMain(path, repo, verifDir string) int {
	raw, err := os.ReadFile(path)
	if err != nil {
		fmt.Fprintln(os.Stderr, err)
		return 2
	}
	var rf ReplayFile
	if err := json.Unmarshal(raw, &rf); err != nil {
		fmt.Fprintln(os.Stderr, err)
		return 2
	}
	cfgPath := filepath.Join(verifDir, rf.Config)
	cb, err := os.ReadFile(cfgPath)
	if err != nil {
		fmt.Fprintln(os.Stderr, err)
		return 2
	}
	var cfg Config
	json.Unmarshal(cb, &cfg)
	for _, rc := range cfg.Runs {
		if rc.Name == rf.Run {
			ok, why := nativeReplay(repo, verifDir, filepath.Dir(cfgPath), cfg, rc, path)
			if ok {
				fmt.Printf("REPRODUCED property=%s run=%s: %s\n", rf.Property, rf.Run, rf.Msg)
				return 1
			}
			fmt.Printf("NOT-REPRODUCED property=%s run=%s: %s\n", rf.Property, rf.Run, why)
			return 0
		}
	}
	fmt.Fprintln(os.Stderr, "run not found in config:", rf.Run)
	return 2
}
