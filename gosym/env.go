package gosym

func (w *World) registerEnv() {}

// ---- lia-mode int<->float bridges ----

func (tb *TB) RealIntToFP(w int, a *Term) *Term {
	if a.Const {
		f, _ := new(bigFloat).SetInt(a.I).Float64()
		if w == 32 {
			f32, _ := new(bigFloat).SetInt(a.I).Float32()
			f = float64(f32)
		}
		return tb.FP(w, f)
	}
	return tb.mk("int_to_fp", SFP(w), a)
}

// FPToIntTrunc: truncation toward zero (Go's float->int conversion for in-range values).
func (tb *TB) FPToIntTrunc(a *Term) *Term {
	if a.Const && !mathIsNaN(a.F) && !mathIsInf(a.F) {
		bf := new(bigFloat).SetFloat64(mathTrunc(a.F))
		bi, _ := bf.Int(nil)
		return tb.Int(bi)
	}
	return tb.mk("fp_to_int", SInt, a)
}
