package gosym

import (
	"fmt"
	"strings"

	"golang.org/x/tools/go/ssa"
)

var extraIntrinsics []func(w *World)

func (w *World) registerEnv() {
	for _, f := range extraIntrinsics {
		f(w)
	}
	// per-run stubs from the harness config
	for name, kind := range w.Opts.Stubs {
		kind := kind
		if kind == "real" {
			// run the function's own body instead of the engine's model of it
			delete(w.intr, name)
			continue
		}
		w.reg(name, func(e *Exec, fn *ssa.Function, a []Value) Value {
			switch kind {
			case "true":
				return e.tb.True
			case "false":
				return e.tb.False
			case "zero":
				return zeroResult(e, fn, a)
			case "nil-error":
				return zeroResult(e, fn, a)
			}
			if strings.HasPrefix(kind, "call:") {
				// redirect to a harness function with the same parameters (receiver first)
				target := e.W.findFunction(kind[5:])
				if target == nil {
					e.ooe("stub target %s not found", kind[5:])
				}
				return e.callFunc(&FuncV{Fn: target}, a, "stub-call")
			}
			e.ooe("unknown stub kind %q for %s", kind, fn)
			return nil
		})
	}
}

// ---- lia-mode int<->float bridges ----

func (tb *TB) RealIntToFP(w int, a *Term) *Term {
	if a.Const {
		f, _ := new(bigFloat).SetInt(a.I).Float64()
		if w == 32 {
			f32, _ := new(bigFloat).SetInt(a.I).Float32()
			f = float64(f32)
		}
		return tb.FP(w, f)
	}
	return tb.mk("int_to_fp", SFP(w), a)
}

// FPToIntTrunc: truncation toward zero (Go's float->int conversion for in-range values).
func (tb *TB) FPToIntTrunc(a *Term) *Term {
	if a.Const && !mathIsNaN(a.F) && !mathIsInf(a.F) {
		bf := new(bigFloat).SetFloat64(mathTrunc(a.F))
		bi, _ := bf.Int(nil)
		return tb.Int(bi)
	}
	return tb.mk("fp_to_int", SInt, a)
}

func init() {
	extraIntrinsics = append(extraIntrinsics, func(w *World) {
		V := VerifPkgPath + "."
		// CallSiteConst(fn, callee, arg): the constant passed at the real call site(s).
		w.reg(V+"CallSiteConst", func(e *Exec, fn *ssa.Function, a []Value) Value {
			in := e.argStr(a[0], "CallSiteConst fn")
			callee := e.argStr(a[1], "CallSiteConst callee")
			idx := e.argInt(a[2], "CallSiteConst arg")
			f := e.W.findFunction(in)
			if f == nil {
				e.ooe("CallSiteConst: function %s not found in the loaded program", in)
			}
			vals, err := e.W.callSiteConsts(f, callee, idx)
			if err != nil {
				e.ooe("CallSiteConst: %v", err)
			}
			occ := e.argInt(a[3], "CallSiteConst occurrence")
			if occ >= len(vals) {
				e.ooe("CallSiteConst: only %d call(s) to %s in %s (occurrence %d requested)", len(vals), callee, in, occ)
			}
			key := fmt.Sprintf("callsite:%s:%s:%d:%d", in, callee, idx, occ)
			// several constants can reach the argument (phi): every one is explored
			pick := vals[occ][e.choose(len(vals[occ]), "callsite:"+key)]
			t := e.intConst(niInt, pick)
			e.namedInfo = append(e.namedInfo, NamedVar{Name: key, Kind: "int64", Term: t})
			return t
		})
	})
}
