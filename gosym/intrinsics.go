package gosym

import (
	"fmt"
	"go/token"
	"go/types"
	"math/big"
	"strings"

	"golang.org/x/tools/go/ssa"
)

func (w *World) reg(name string, f intrinsicFn) { w.intr[name] = f }
func (w *World) regPrefix(p string, f intrinsicFn) {
	w.intrPref = append(w.intrPref, prefIntr{p, f})
}

// zeroResult: no-op stub returning zero values; if the (first) result type is
// the receiver's type, the receiver is returned (chainable loggers/builders).
func zeroResult(e *Exec, fn *ssa.Function, args []Value) Value {
	res := fn.Signature.Results()
	switch res.Len() {
	case 0:
		return nil
	case 1:
		if fn.Signature.Recv() != nil && len(args) > 0 && types.Identical(res.At(0).Type(), fn.Signature.Recv().Type()) {
			return args[0]
		}
		return e.zero(res.At(0).Type())
	}
	return e.zero(res)
}

func (e *Exec) newVar(base string, s Sort) *Term {
	base = sanitize(base)
	n := e.varSeq[base]
	e.varSeq[base] = n + 1
	name := base
	if n > 0 {
		name = fmt.Sprintf("%s!%d", base, n)
	}
	v := e.tb.Var(name, s)
	e.pathVars = append(e.pathVars, v)
	return v
}

func (e *Exec) newIntVar(base string, ni numInfo) *Term {
	if e.mode == "lia" {
		base = sanitize(base)
		n := e.varSeq[base]
		e.varSeq[base] = n + 1
		name := base
		if n > 0 {
			name = fmt.Sprintf("%s!%d", base, n)
		}
		var lo, hi *big.Int
		if ni.Signed {
			lo = new(big.Int).Neg(pow2(ni.W - 1))
			hi = new(big.Int).Sub(pow2(ni.W-1), bigOne)
		} else {
			lo = big.NewInt(0)
			hi = new(big.Int).Sub(pow2(ni.W), bigOne)
		}
		v := e.tb.VarRange(name, lo, hi)
		e.pathVars = append(e.pathVars, v)
		return v
	}
	return e.newVar(base, SBV(ni.W))
}

func sanitize(s string) string {
	var sb strings.Builder
	for _, r := range s {
		if (r >= 'a' && r <= 'z') || (r >= 'A' && r <= 'Z') || (r >= '0' && r <= '9') || r == '_' || r == '.' {
			sb.WriteRune(r)
		} else {
			sb.WriteByte('_')
		}
	}
	if sb.Len() == 0 {
		return "v"
	}
	return sb.String()
}

func (e *Exec) argStr(v Value, why string) string {
	return e.mustConcStr(v.(*StrV), why)
}

func (e *Exec) argInt(v Value, why string) int {
	t := v.(*Term)
	if c, ok := e.concInt(t, niInt); ok {
		return int(c)
	}
	return e.concretizeInt(t, why)
}

func (e *Exec) name(kind string, v Value, t *Term, n int) string {
	nm := e.argStr(v, "verif name")
	e.namedInfo = append(e.namedInfo, NamedVar{Name: nm, Kind: kind, Term: t, N: n})
	return nm
}

func (e *Exec) namedInt(kind string, ni numInfo) intrinsicFn {
	return func(e *Exec, fn *ssa.Function, args []Value) Value {
		nm := e.argStr(args[0], "verif name")
		t := e.newIntVar(nm, ni)
		e.namedInfo = append(e.namedInfo, NamedVar{Name: nm, Kind: kind, Term: t})
		return t
	}
}

func (e *Exec) symBytes(nm string, n int) []*Term {
	bs := make([]*Term, n)
	for i := range bs {
		bs[i] = e.newIntVar(fmt.Sprintf("%s_%d", nm, i), niByte)
	}
	e.namedInfo = append(e.namedInfo, NamedVar{Name: nm, Kind: "bytes", N: n, Bytes: bs})
	return bs
}

func (e *Exec) bytesToSlice(bs []*Term) SliceV {
	arr := &Loc{Comp: true, id: e.newLocID(), Typ: types.NewArray(types.Typ[types.Uint8], int64(len(bs)))}
	arr.Kids = make([]*Loc, len(bs))
	for i, b := range bs {
		arr.Kids[i] = &Loc{V: b, Typ: types.Typ[types.Uint8], Par: arr, Idx: i}
	}
	return SliceV{Arr: arr, Len: len(bs), Cap: len(bs)}
}

func (e *Exec) sliceBytes(s SliceV) []*Term {
	out := make([]*Term, s.Len)
	for i := range out {
		switch v := s.Arr.Kids[s.Off+i].V.(type) {
		case *Term:
			out[i] = v
		case *Opaque:
			// a byte of a marshalled buffer (json/msgpack model): an unknown but
			// fixed byte per buffer, so checksums over it are congruent
			if e.opaqueBytes == nil {
				e.opaqueBytes = map[*Opaque]*Term{}
			}
			t, ok := e.opaqueBytes[v]
			if !ok {
				t = e.newIntVar("opaque_byte", niByte)
				e.opaqueBytes[v] = t
			}
			out[i] = t
		default:
			e.ooe("byte slice element of kind %T", v)
		}
	}
	return out
}

func (w *World) registerIntrinsics() {
	w.intr = map[string]intrinsicFn{}
	V := VerifPkgPath + "."
	tbOf := func(e *Exec) *TB { return e.tb }
	_ = tbOf

	// ----- harness API -----
	w.reg(V+"Int64", func(e *Exec, fn *ssa.Function, a []Value) Value { return e.namedInt("int64", niInt)(e, fn, a) })
	w.reg(V+"Int", func(e *Exec, fn *ssa.Function, a []Value) Value { return e.namedInt("int64", niInt)(e, fn, a) })
	w.reg(V+"Uint64", func(e *Exec, fn *ssa.Function, a []Value) Value { return e.namedInt("uint64", niUint64)(e, fn, a) })
	w.reg(V+"Int32", func(e *Exec, fn *ssa.Function, a []Value) Value { return e.namedInt("int32", niInt32)(e, fn, a) })
	w.reg(V+"Uint32", func(e *Exec, fn *ssa.Function, a []Value) Value {
		return e.namedInt("uint32", numInfo{W: 32, Int: true})(e, fn, a)
	})
	w.reg(V+"Byte", func(e *Exec, fn *ssa.Function, a []Value) Value { return e.namedInt("byte", niByte)(e, fn, a) })
	w.reg(V+"Bool", func(e *Exec, fn *ssa.Function, a []Value) Value {
		nm := e.argStr(a[0], "verif name")
		t := e.newVar(nm, SBool)
		e.namedInfo = append(e.namedInfo, NamedVar{Name: nm, Kind: "bool", Term: t})
		return t
	})
	w.reg(V+"Float64", func(e *Exec, fn *ssa.Function, a []Value) Value {
		nm := e.argStr(a[0], "verif name")
		t := e.newVar(nm, SFP(64))
		e.namedInfo = append(e.namedInfo, NamedVar{Name: nm, Kind: "float64", Term: t})
		return t
	})
	w.reg(V+"Bytes", func(e *Exec, fn *ssa.Function, a []Value) Value {
		nm := e.argStr(a[0], "verif name")
		n := e.argInt(a[1], "verif.Bytes len")
		return e.bytesToSlice(e.symBytes(nm, n))
	})
	w.reg(V+"String", func(e *Exec, fn *ssa.Function, a []Value) Value {
		nm := e.argStr(a[0], "verif name")
		n := e.argInt(a[1], "verif.String len")
		return &StrV{B: e.symBytes(nm, n)}
	})
	w.reg(V+"Len", func(e *Exec, fn *ssa.Function, a []Value) Value {
		nm := e.argStr(a[0], "verif name")
		max := e.argInt(a[1], "verif.Len max")
		k := e.choose(max+1, "len:"+nm)
		t := e.mkInt(k)
		e.namedInfo = append(e.namedInfo, NamedVar{Name: nm, Kind: "choice", Term: t})
		return t
	})
	w.reg(V+"Choice", func(e *Exec, fn *ssa.Function, a []Value) Value {
		nm := e.argStr(a[0], "verif name")
		n := e.argInt(a[1], "verif.Choice n")
		k := e.choose(n, "choice:"+nm)
		t := e.mkInt(k)
		e.namedInfo = append(e.namedInfo, NamedVar{Name: nm, Kind: "choice", Term: t})
		return t
	})
	// SymChoice: a solver-level selector 0..n-1 (no fork until used structurally)
	w.reg(V+"SymChoice", func(e *Exec, fn *ssa.Function, a []Value) Value {
		nm := e.argStr(a[0], "verif name")
		n := e.argInt(a[1], "verif.SymChoice n")
		t := e.newIntVar(nm, niInt)
		e.namedInfo = append(e.namedInfo, NamedVar{Name: nm, Kind: "int64", Term: t})
		e.assume(e.inRange(t, niInt, n))
		return t
	})
	w.reg(V+"OneOf", func(e *Exec, fn *ssa.Function, a []Value) Value {
		nm := e.argStr(a[0], "verif name")
		sl := a[1].(SliceV)
		var opts []string
		for i := 0; i < sl.Len; i++ {
			opts = append(opts, e.argStr(sl.Arr.Kids[sl.Off+i].V, "OneOf option"))
		}
		if len(opts) == 0 {
			e.abort("harness-error", "OneOf without options")
		}
		if len(opts) == 1 {
			return e.strConst(opts[0])
		}
		sel := e.newIntVar(nm, niInt)
		e.namedInfo = append(e.namedInfo, NamedVar{Name: nm, Kind: "oneof:" + strings.Join(opts, "\x1f"), Term: sel})
		e.assume(e.inRange(sel, niInt, len(opts)))
		return &StrV{Sel: sel, Opts: opts}
	})
	w.reg(V+"Assume", func(e *Exec, fn *ssa.Function, a []Value) Value {
		e.assume(a[0].(*Term))
		return nil
	})
	w.reg(V+"Assert", func(e *Exec, fn *ssa.Function, a []Value) Value {
		e.check(a[0].(*Term), e.argStr(a[1], "assert msg"), "assert")
		return nil
	})
	w.reg(V+"Reach", func(e *Exec, fn *ssa.Function, a []Value) Value {
		e.reached[e.argStr(a[0], "reach label")] = true
		return nil
	})
	w.reg(V+"And", func(e *Exec, fn *ssa.Function, a []Value) Value {
		return e.tb.And(a[0].(*Term), a[1].(*Term))
	})
	w.reg(V+"Or", func(e *Exec, fn *ssa.Function, a []Value) Value {
		return e.tb.Or(a[0].(*Term), a[1].(*Term))
	})
	w.reg(V+"Not", func(e *Exec, fn *ssa.Function, a []Value) Value { return e.tb.Not(a[0].(*Term)) })
	w.reg(V+"Implies", func(e *Exec, fn *ssa.Function, a []Value) Value {
		return e.tb.Implies(a[0].(*Term), a[1].(*Term))
	})
	w.reg(V+"IteInt64", func(e *Exec, fn *ssa.Function, a []Value) Value {
		return e.tb.Ite(a[0].(*Term), a[1].(*Term), a[2].(*Term))
	})
	w.reg(V+"IteInt", func(e *Exec, fn *ssa.Function, a []Value) Value {
		return e.tb.Ite(a[0].(*Term), a[1].(*Term), a[2].(*Term))
	})
	w.reg(V+"EqStr", func(e *Exec, fn *ssa.Function, a []Value) Value {
		return e.strEq(a[0].(*StrV), a[1].(*StrV))
	})
	w.reg(V+"EqBytes", func(e *Exec, fn *ssa.Function, a []Value) Value {
		x, y := a[0].(SliceV), a[1].(SliceV)
		if x.Len != y.Len {
			return e.tb.False
		}
		return e.strEq(&StrV{B: e.sliceBytes(x)}, &StrV{B: e.sliceBytes(y)})
	})
	w.reg(V+"Known", func(e *Exec, fn *ssa.Function, a []Value) Value {
		id := e.argStr(a[0], "known id")
		if e.W.Opts.KnownOpen[id] {
			e.known = append(e.known, knownPred{id: id, pred: a[1].(*Term)})
		}
		return nil
	})
	w.reg(V+"ClearKnown", func(e *Exec, fn *ssa.Function, a []Value) Value {
		e.known = nil
		return nil
	})
	w.reg(V+"Unwind", func(e *Exec, fn *ssa.Function, a []Value) Value {
		e.unwind = e.argInt(a[0], "unwind")
		return nil
	})
	w.reg(V+"PanicsAre", func(e *Exec, fn *ssa.Function, a []Value) Value {
		e.panicsAre = e.argStr(a[0], "PanicsAre")
		return nil
	})
	w.reg(V+"Param", func(e *Exec, fn *ssa.Function, a []Value) Value {
		k := e.argStr(a[0], "param")
		def := e.argStr(a[1], "param default")
		if v, ok := e.W.Opts.Params[k]; ok {
			return e.strConst(v)
		}
		return e.strConst(def)
	})
	w.reg(V+"ParamInt", func(e *Exec, fn *ssa.Function, a []Value) Value {
		k := e.argStr(a[0], "param")
		def := e.argInt(a[1], "param default")
		if v, ok := e.W.Opts.Params[k]; ok {
			var n int
			fmt.Sscanf(v, "%d", &n)
			return e.mkInt(n)
		}
		return e.mkInt(def)
	})
	w.reg(V+"Symbolic", func(e *Exec, fn *ssa.Function, a []Value) Value { return e.tb.True })
	w.reg(V+"Observe", func(e *Exec, fn *ssa.Function, a []Value) Value {
		return nil
	})
	// OutOfModel(msg): a harness model was asked something it does not model (e.g. an SQL
	// shape it cannot interpret): the path is out of encoding, never a pass.
	w.reg(V+"OutOfModel", func(e *Exec, fn *ssa.Function, a []Value) Value {
		e.ooe("harness model: %s", e.argStr(a[0], "OutOfModel message"))
		return nil
	})
	w.reg(V+"Crash", func(e *Exec, fn *ssa.Function, a []Value) Value {
		e.abort("done", "crash")
		return nil
	})
	w.reg(V+"ClockMonotone", func(e *Exec, fn *ssa.Function, a []Value) Value {
		e.clockMono = true
		return nil
	})
	w.reg(V+"LastNow", func(e *Exec, fn *ssa.Function, a []Value) Value {
		if e.clockLast == nil {
			return e.zeroTime()
		}
		return TimeV{NS: e.clockLast}
	})
	w.reg(V+"TimeFormatDigits", func(e *Exec, fn *ssa.Function, a []Value) Value {
		e.timeFmtDigits = true
		return nil
	})
	w.reg(V+"FirstNow", func(e *Exec, fn *ssa.Function, a []Value) Value {
		if e.clockFirst == nil {
			return e.zeroTime()
		}
		return TimeV{NS: e.clockFirst}
	})
	w.reg(V+"Now", func(e *Exec, fn *ssa.Function, a []Value) Value { return e.now() })
	w.reg(V+"ClockSpan", func(e *Exec, fn *ssa.Function, a []Value) Value {
		// starts a new group of clock readings: every reading until the next
		// ClockSpan call lies within d of the first reading of the group
		// (negative d: no constraint).
		e.clockSpan = e.durToInt(a[0].(*Term))
		if e.clockSpan.Const && e.clockSpan.I.Sign() < 0 {
			e.clockSpan = nil
		}
		e.clockFirst = nil
		return nil
	})
	w.reg(V+"Time", func(e *Exec, fn *ssa.Function, a []Value) Value {
		nm := e.argStr(a[0], "verif name")
		t := e.newTimeVar(nm)
		e.namedInfo = append(e.namedInfo, NamedVar{Name: nm, Kind: "time", Term: t})
		return TimeV{NS: t}
	})
	w.reg(V+"Duration", func(e *Exec, fn *ssa.Function, a []Value) Value { return e.namedInt("int64", niInt)(e, fn, a) })
	w.reg(V+"Recovered", func(e *Exec, fn *ssa.Function, a []Value) Value {
		// Recovered(f): runs f, reports whether it panicked (engine: runs natively in SSA)
		return nil
	})

	w.registerTime()
	w.registerSync()
	w.registerStd()
	w.registerEnv()
}

// callValue calls a func value from an intrinsic.
func (e *Exec) callValue(f Value, args ...Value) Value {
	fv, _ := f.(*FuncV)
	return e.callFunc(fv, args, "intrinsic")
}

// errorValue creates an error (interface) value with the given concrete text,
// using the real errors.errorString type so that Error() runs from source.
func (e *Exec) errorValue(msg string) Value {
	return e.errorWrap(e.strConst(msg), nil)
}

func (e *Exec) lookupType(pkgPath, name string) types.Type {
	for _, p := range e.W.Prog.AllPackages() {
		if p.Pkg.Path() == pkgPath {
			if o := p.Pkg.Scope().Lookup(name); o != nil {
				return o.Type()
			}
		}
	}
	return nil
}

// errorWrap builds *fmt.wrapError{msg, err} (or *errors.errorString when err is nil).
func (e *Exec) errorWrap(msg *StrV, wrapped Value) Value {
	if wrapped == nil {
		t := e.lookupType("errors", "errorString")
		if t == nil {
			e.ooe("errors.errorString not loaded")
		}
		l := e.newLoc(t)
		l.Kids[0].V = msg
		return IfaceV{T: types.NewPointer(t), V: Ptr{L: l}}
	}
	t := e.lookupType("fmt", "wrapError")
	if t == nil {
		e.ooe("fmt.wrapError not loaded")
	}
	l := e.newLoc(t)
	l.Kids[0].V = msg
	l.Kids[1].V = wrapped
	return IfaceV{T: types.NewPointer(t), V: Ptr{L: l}}
}

// formatArgs renders fmt-style arguments best-effort (symbolic parts become "<sym>").
func (e *Exec) sprintf(format string, args []Value) (string, []Value) {
	var hostArgs []interface{}
	var errs []Value
	for _, a := range args {
		hostArgs = append(hostArgs, e.hostValue(a, &errs))
	}
	// %w -> %v for host formatting
	f := strings.ReplaceAll(format, "%w", "%v")
	return fmt.Sprintf(f, hostArgs...), errs
}

type symPlaceholder struct{}

func (symPlaceholder) String() string { return "<sym>" }

func (e *Exec) hostValue(a Value, errs *[]Value) interface{} {
	switch x := a.(type) {
	case IfaceV:
		if x.T == nil {
			return nil
		}
		if types.Implements(x.T, errorIface) {
			if errs != nil {
				*errs = append(*errs, x)
			}
			// try to render the message
			if s, ok := e.errorText(x); ok {
				return s
			}
			return "<error>"
		}
		ni, ok := basicInfo(x.T)
		if ok && ni.Int {
			if t, ok := x.V.(*Term); ok {
				if c, ok := e.concInt(t, ni); ok {
					if !ni.Signed {
						return uint64(c)
					}
					return c
				}
				return symPlaceholder{}
			}
		}
		return e.hostValue(x.V, errs)
	case *Term:
		if !x.Const {
			return symPlaceholder{}
		}
		switch x.S.K {
		case KBool:
			return x.B
		case KFP:
			return x.F
		case KInt:
			if x.I.IsInt64() {
				return x.I.Int64()
			}
			return x.I.String()
		default:
			if x.I.IsInt64() {
				return x.I.Int64()
			}
			return x.I.Uint64()
		}
	case *StrV:
		if s, ok := e.concStr(x); ok {
			return s
		}
		return "<sym>"
	case SliceV:
		if x.Len > 0 {
			if _, ok := x.Arr.Kids[x.Off].V.(*Term); ok {
				return "<slice>"
			}
		}
		return "<slice>"
	case TimeV:
		return "<time>"
	}
	return "<value>"
}

var errorIface = types.Universe.Lookup("error").Type().Underlying().(*types.Interface)

func (e *Exec) errorText(x IfaceV) (string, bool) {
	if p, ok := x.V.(Ptr); ok && p.L != nil && p.L.Comp && len(p.L.Kids) > 0 {
		if s, ok := p.L.Kids[0].V.(*StrV); ok {
			return e.concStr(s)
		}
	}
	return "", false
}

func (w *World) registerStd() {
	// ----- fmt -----
	w.reg("fmt.Errorf", func(e *Exec, fn *ssa.Function, a []Value) Value {
		format := e.argStr(a[0], "format")
		var args []Value
		sl := a[1].(SliceV)
		for i := 0; i < sl.Len; i++ {
			args = append(args, sl.Arr.Kids[sl.Off+i].V)
		}
		msg, errs := e.sprintf(format, args)
		if strings.Contains(format, "%w") && len(errs) > 0 {
			return e.errorWrap(e.strConst(msg), errs[0])
		}
		return e.errorValue(msg)
	})
	sprint := func(e *Exec, fn *ssa.Function, a []Value) Value {
		format := e.argStr(a[0], "format")
		var args []Value
		sl := a[1].(SliceV)
		allConc := true
		for i := 0; i < sl.Len; i++ {
			v := sl.Arr.Kids[sl.Off+i].V
			args = append(args, v)
			if iv, ok := v.(IfaceV); ok {
				switch x := iv.V.(type) {
				case *Term:
					if !x.Const {
						allConc = false
					}
				case *StrV:
					if _, ok := e.concStr(x); !ok {
						allConc = false
					}
				}
			}
		}
		if !allConc {
			// symbolic string pieces: only %s / %d-free concatenation is modelled
			if r, ok := e.symSprintf(format, args); ok {
				return r
			}
			// "<literal>%d<literal>" of one symbolic integer: an abstract string that is
			// equal to another one of the same format exactly when the numbers are equal
			// (decimal notation is injective). The number is kept as a mathematical
			// integer: a 65-bit vector (sign- or zero-extended by the operand's type) in
			// bv mode, the Int term in lia mode.
			if strings.Count(format, "%") == 1 && strings.Count(format, "%d")+strings.Count(format, "%v") == 1 && len(args) == 1 {
				if iv, ok := args[0].(IfaceV); ok {
					if t, isT := iv.V.(*Term); isT {
						if bt, isB := iv.T.Underlying().(*types.Basic); isB && bt.Info()&types.IsInteger != 0 {
							val := t
							if t.S.K == KBV {
								if bt.Info()&types.IsUnsigned != 0 {
									val = e.tb.ZExt(65, t)
								} else {
									val = e.tb.SExt(65, t)
								}
							}
							// %v of an integer prints as %d does
							return &StrV{Abs: &absStr{Kind: "fmtint", Layout: strings.Replace(format, "%v", "%d", 1), T: val}}
						}
					}
				}
			}
			e.ooe("fmt.Sprintf(%q) with symbolic arguments", format)
		}
		msg, _ := e.sprintf(format, args)
		return e.strConst(msg)
	}
	w.reg("fmt.Sprintf", sprint)
	w.reg("fmt.Sprint", func(e *Exec, fn *ssa.Function, a []Value) Value {
		sl := a[0].(SliceV)
		var parts []string
		for i := 0; i < sl.Len; i++ {
			parts = append(parts, fmt.Sprint(e.hostValue(sl.Arr.Kids[sl.Off+i].V, nil)))
		}
		return e.strConst(strings.Join(parts, ""))
	})
	w.regPrefix("fmt.Fprint", zeroResult)
	w.regPrefix("fmt.Print", zeroResult)

	// ----- errors -----
	w.reg("errors.Is", func(e *Exec, fn *ssa.Function, a []Value) Value {
		return e.tb.Bool(e.errorsIs(a[0].(IfaceV), a[1].(IfaceV), 0))
	})
	w.reg("errors.As", func(e *Exec, fn *ssa.Function, a []Value) Value {
		return e.tb.Bool(e.errorsAs(a[0].(IfaceV), a[1].(IfaceV), 0))
	})

	// ----- bytes / strings search kernels (assembly-backed leaves) -----
	idxByte := func(e *Exec, bs []*Term, c *Term) *Term {
		res := e.intConst(niInt, -1)
		for i := len(bs) - 1; i >= 0; i-- {
			res = e.tb.Ite(e.tb.Eq(bs[i], c), e.mkInt(i), res)
		}
		return res
	}
	w.reg("internal/bytealg.IndexByte", func(e *Exec, fn *ssa.Function, a []Value) Value {
		return idxByte(e, e.sliceBytes(a[0].(SliceV)), a[1].(*Term))
	})
	w.reg("internal/bytealg.IndexByteString", func(e *Exec, fn *ssa.Function, a []Value) Value {
		return idxByte(e, e.plainStr(a[0].(*StrV)).B, a[1].(*Term))
	})
	w.reg("bytes.IndexByte", w.intr["internal/bytealg.IndexByte"])
	w.reg("strings.IndexByte", w.intr["internal/bytealg.IndexByteString"])
	lastIdxByte := func(e *Exec, bs []*Term, c *Term) *Term {
		res := e.intConst(niInt, -1)
		for i := 0; i < len(bs); i++ {
			res = e.tb.Ite(e.tb.Eq(bs[i], c), e.mkInt(i), res)
		}
		return res
	}
	w.reg("internal/bytealg.LastIndexByte", func(e *Exec, fn *ssa.Function, a []Value) Value {
		return lastIdxByte(e, e.sliceBytes(a[0].(SliceV)), a[1].(*Term))
	})
	w.reg("internal/bytealg.LastIndexByteString", func(e *Exec, fn *ssa.Function, a []Value) Value {
		return lastIdxByte(e, e.plainStr(a[0].(*StrV)).B, a[1].(*Term))
	})
	w.reg("bytes.LastIndexByte", w.intr["internal/bytealg.LastIndexByte"])
	w.reg("strings.LastIndexByte", w.intr["internal/bytealg.LastIndexByteString"])
	count := func(e *Exec, bs []*Term, c *Term) *Term {
		res := e.mkInt(0)
		for i := range bs {
			res = e.tb.Ite(e.tb.Eq(bs[i], c), e.arith(token.ADD, niInt, res, e.mkInt(1)), res)
		}
		return res
	}
	w.reg("internal/bytealg.Count", func(e *Exec, fn *ssa.Function, a []Value) Value {
		return count(e, e.sliceBytes(a[0].(SliceV)), a[1].(*Term))
	})
	w.reg("internal/bytealg.CountString", func(e *Exec, fn *ssa.Function, a []Value) Value {
		return count(e, e.plainStr(a[0].(*StrV)).B, a[1].(*Term))
	})
	index := func(e *Exec, s, sub []*Term) *Term {
		res := e.intConst(niInt, -1)
		for i := len(s) - len(sub); i >= 0; i-- {
			var cs []*Term
			for j := range sub {
				cs = append(cs, e.tb.Eq(s[i+j], sub[j]))
			}
			res = e.tb.Ite(e.tb.And(cs...), e.mkInt(i), res)
		}
		return res
	}
	w.reg("strings.Index", func(e *Exec, fn *ssa.Function, a []Value) Value {
		return index(e, e.plainStr(a[0].(*StrV)).B, e.plainStr(a[1].(*StrV)).B)
	})
	w.reg("bytes.Index", func(e *Exec, fn *ssa.Function, a []Value) Value {
		return index(e, e.sliceBytes(a[0].(SliceV)), e.sliceBytes(a[1].(SliceV)))
	})
	w.reg("internal/bytealg.IndexString", w.intr["strings.Index"])
	w.reg("internal/bytealg.Index", w.intr["bytes.Index"])
	w.reg("internal/stringslite.Index", w.intr["strings.Index"])
	w.reg("internal/stringslite.IndexByte", w.intr["strings.IndexByte"])
	w.reg("internal/bytealg.Equal", func(e *Exec, fn *ssa.Function, a []Value) Value {
		x, y := a[0].(SliceV), a[1].(SliceV)
		if x.Len != y.Len {
			return e.tb.False
		}
		return e.strEq(&StrV{B: e.sliceBytes(x)}, &StrV{B: e.sliceBytes(y)})
	})
	w.reg("internal/bytealg.Compare", func(e *Exec, fn *ssa.Function, a []Value) Value {
		x, y := &StrV{B: e.sliceBytes(a[0].(SliceV))}, &StrV{B: e.sliceBytes(a[1].(SliceV))}
		return e.tb.Ite(e.strEq(x, y), e.mkInt(0), e.tb.Ite(e.strLess(x, y, false), e.intConst(niInt, -1), e.mkInt(1)))
	})
	w.reg("internal/bytealg.CompareString", func(e *Exec, fn *ssa.Function, a []Value) Value {
		x, y := e.plainStr(a[0].(*StrV)), e.plainStr(a[1].(*StrV))
		return e.tb.Ite(e.strEq(x, y), e.mkInt(0), e.tb.Ite(e.strLess(x, y, false), e.intConst(niInt, -1), e.mkInt(1)))
	})
	w.reg("internal/bytealg.MakeNoZero", func(e *Exec, fn *ssa.Function, a []Value) Value {
		n := e.argInt(a[0], "MakeNoZero")
		return SliceV{Arr: e.newArrayLoc(types.Typ[types.Uint8], n), Len: n, Cap: n}
	})
	w.reg("internal/abi.NoEscape", func(e *Exec, fn *ssa.Function, a []Value) Value { return a[0] })
	w.reg("internal/abi.Escape", func(e *Exec, fn *ssa.Function, a []Value) Value { return a[0] })
	w.regPrefix("internal/race.", zeroResult)
	w.regPrefix("internal/msan.", zeroResult)
	w.regPrefix("internal/asan.", zeroResult)
	w.reg("runtime.KeepAlive", zeroResult)
	w.reg("runtime.Gosched", func(e *Exec, fn *ssa.Function, a []Value) Value { e.yield("gosched"); return nil })
	w.reg("runtime.GOMAXPROCS", func(e *Exec, fn *ssa.Function, a []Value) Value { return e.mkInt(4) })
	w.reg("runtime.NumCPU", func(e *Exec, fn *ssa.Function, a []Value) Value { return e.mkInt(4) })
	w.reg("runtime.SetFinalizer", zeroResult)
	w.regPrefix("runtime/debug.", zeroResult)

	// ----- hashing: uninterpreted -----
	w.reg("hash/crc32.ChecksumIEEE", func(e *Exec, fn *ssa.Function, a []Value) Value {
		return e.ufBytes("crc32", e.sliceBytes(a[0].(SliceV)), 32)
	})
	w.reg("hash/crc32.Checksum", func(e *Exec, fn *ssa.Function, a []Value) Value {
		return e.ufBytes("crc32", e.sliceBytes(a[0].(SliceV)), 32)
	})
	w.reg("hash/crc32.MakeTable", func(e *Exec, fn *ssa.Function, a []Value) Value { return Ptr{} })
	w.reg("hash/crc32.Update", func(e *Exec, fn *ssa.Function, a []Value) Value {
		crc := a[0].(*Term)
		bs := e.sliceBytes(a[2].(SliceV))
		if c, ok := e.concInt(crc, numInfo{W: 32, Int: true}); ok && c == 0 {
			return e.ufBytes("crc32", bs, 32)
		}
		e.ooe("crc32.Update with non-zero start")
		return nil
	})

	// ----- logging / metrics: no-ops -----
	w.regPrefix("github.com/rs/zerolog.", zeroResult)
	w.regPrefix("(github.com/rs/zerolog.", zeroResult)
	w.regPrefix("(*github.com/rs/zerolog.", zeroResult)
	w.regPrefix("github.com/rs/zerolog/log.", zeroResult)
	w.regPrefix("github.com/basekick-labs/arc/internal/metrics.", zeroResult)
	w.regPrefix("(*github.com/basekick-labs/arc/internal/metrics.", zeroResult)
	w.regPrefix("github.com/prometheus/", zeroResult)
	w.regPrefix("(*github.com/prometheus/", zeroResult)
	w.regPrefix("(github.com/prometheus/", zeroResult)
	w.regPrefix("log.Print", zeroResult)
	w.regPrefix("(*log.Logger).", zeroResult)
	w.regPrefix("(*log/slog.Logger).", zeroResult)
	w.regPrefix("log/slog.", zeroResult)

	// ----- sort -----
	w.reg("sort.Slice", func(e *Exec, fn *ssa.Function, a []Value) Value { return e.sortSlice(a[0], a[1], false) })
	w.reg("sort.SliceStable", func(e *Exec, fn *ssa.Function, a []Value) Value { return e.sortSlice(a[0], a[1], true) })

	// ----- math bits that go through unsafe -----
	w.reg("math.IsNaN", func(e *Exec, fn *ssa.Function, a []Value) Value { return e.tb.FPIsNaN(a[0].(*Term)) })
	w.reg("math.IsInf", func(e *Exec, fn *ssa.Function, a []Value) Value {
		f := a[0].(*Term)
		sign := e.argInt(a[1], "IsInf sign")
		inf := e.tb.FPIsInf(f)
		zero := e.tb.FP(64, 0)
		switch {
		case sign > 0:
			return e.tb.And(inf, e.tb.fpCmp("fp.gt", f, zero))
		case sign < 0:
			return e.tb.And(inf, e.tb.fpCmp("fp.lt", f, zero))
		}
		return inf
	})
	w.reg("math.Float64bits", func(e *Exec, fn *ssa.Function, a []Value) Value {
		f := a[0].(*Term)
		if f.Const {
			return e.intConstBig(niUint64, new(big.Int).SetUint64(mathFloat64bits(f.F)))
		}
		if e.mode == "lia" {
			e.ooe("Float64bits of symbolic float in lia mode")
		}
		// fresh bit-vector b with to_fp(b) == f
		b := e.newVar("f64bits", SBV(64))
		e.assume(e.tb.mk("=", SBool, e.tb.mk("bv2fp64", SFP(64), b), f))
		return b
	})
	w.reg("math.Float64frombits", func(e *Exec, fn *ssa.Function, a []Value) Value {
		b := a[0].(*Term)
		if c, ok := e.concInt(b, niUint64); ok {
			return e.tb.FP(64, mathFloat64frombits(uint64(c)))
		}
		if b.Const && b.I != nil {
			return e.tb.FP(64, mathFloat64frombits(b.I.Uint64()))
		}
		if e.mode == "lia" {
			e.ooe("Float64frombits of symbolic bits in lia mode")
		}
		return e.tb.mk("bv2fp64", SFP(64), b)
	})
	w.reg("math.Abs", func(e *Exec, fn *ssa.Function, a []Value) Value {
		f := a[0].(*Term)
		if f.Const {
			return e.tb.FP(64, mathAbs(f.F))
		}
		return e.tb.mk("fp.abs", f.S, f)
	})
}

func (e *Exec) ufBytes(name string, bs []*Term, w int) *Term {
	// one UF per input length; congruence only
	all := true
	for _, b := range bs {
		if !b.Const {
			all = false
		}
	}
	_ = all
	fname := fmt.Sprintf("%s_len%d", name, len(bs))
	var res Sort
	if e.mode == "lia" {
		res = SInt
	} else {
		res = SBV(w)
	}
	if len(bs) == 0 {
		return e.tb.Var(fname+"_empty", res)
	}
	t := e.tb.UF(fname, res, bs...)
	if e.mode == "lia" && t.Lo == nil {
		t.Lo, t.Hi = big.NewInt(0), new(big.Int).Sub(pow2(w), bigOne)
		e.assumeRange(t)
	}
	return t
}

func (e *Exec) assumeRange(t *Term) {
	e.addPC(e.tb.And(e.tb.mk("<=", SBool, e.tb.Int(t.Lo), t), e.tb.mk("<=", SBool, t, e.tb.Int(t.Hi))))
}

// symSprintf handles formats made only of literal text, %s and %d (with concrete
// ints) when some %s arguments are symbolic strings.
func (e *Exec) symSprintf(format string, args []Value) (Value, bool) {
	var out []*Term
	ai := 0
	for i := 0; i < len(format); i++ {
		c := format[i]
		if c != '%' {
			out = append(out, e.byteConst(c))
			continue
		}
		i++
		if i >= len(format) {
			return nil, false
		}
		switch format[i] {
		case '%':
			out = append(out, e.byteConst('%'))
		case 's', 'v', 'd':
			if ai >= len(args) {
				return nil, false
			}
			a := args[ai]
			ai++
			if iv, ok := a.(IfaceV); ok {
				a = iv.V
			}
			switch x := a.(type) {
			case *StrV:
				out = append(out, e.plainStr(x).B...)
			case *Term:
				if !x.Const {
					return nil, false
				}
				s := fmt.Sprint(e.hostValue(x, nil))
				out = append(out, e.strConst(s).B...)
			default:
				return nil, false
			}
		default:
			return nil, false
		}
	}
	return &StrV{B: out}, true
}

func (e *Exec) errorsIs(err, target IfaceV, depth int) bool {
	if depth > 20 || err.T == nil {
		return err.T == nil && target.T == nil
	}
	if target.T != nil && types.Comparable(target.T) && types.Identical(err.T, target.T) {
		c := e.valueEq(err.V, target.V)
		if e.branch(c) {
			return true
		}
	}
	// Is(error) bool method
	if m := e.findMethod(err.T, "Is"); m != nil {
		r := e.callFunc(&FuncV{Fn: m}, []Value{err.V, target}, "errors.Is")
		if e.branch(r.(*Term)) {
			return true
		}
	}
	if m := e.findMethod(err.T, "Unwrap"); m != nil {
		r := e.callFunc(&FuncV{Fn: m}, []Value{err.V}, "errors.Unwrap")
		switch x := r.(type) {
		case IfaceV:
			if x.T == nil {
				return false
			}
			return e.errorsIs(x, target, depth+1)
		case SliceV:
			for i := 0; i < x.Len; i++ {
				if iv, ok := x.Arr.Kids[x.Off+i].V.(IfaceV); ok && iv.T != nil {
					if e.errorsIs(iv, target, depth+1) {
						return true
					}
				}
			}
		}
	}
	return false
}

func (e *Exec) errorsAs(err, target IfaceV, depth int) bool {
	if err.T == nil || depth > 20 {
		return false
	}
	pt, ok := target.T.(*types.Pointer)
	if !ok {
		e.goPanicf("errors.As: target must be a non-nil pointer")
	}
	tp := target.V.(Ptr)
	want := pt.Elem()
	if types.IsInterface(want) {
		if types.Implements(err.T, want.Underlying().(*types.Interface)) {
			e.storePtr(tp, err)
			return true
		}
	} else if types.Identical(err.T, want) {
		e.storePtr(tp, err.V)
		return true
	}
	if m := e.findMethod(err.T, "Unwrap"); m != nil {
		r := e.callFunc(&FuncV{Fn: m}, []Value{err.V}, "errors.Unwrap")
		if x, ok := r.(IfaceV); ok && x.T != nil {
			return e.errorsAs(x, target, depth+1)
		}
	}
	return false
}

func (e *Exec) findMethod(t types.Type, name string) *ssa.Function {
	e.W.buildMu.Lock()
	defer e.W.buildMu.Unlock()
	ms := e.W.Prog.MethodSets.MethodSet(t)
	for i := 0; i < ms.Len(); i++ {
		if ms.At(i).Obj().Name() == name {
			return e.W.Prog.MethodValue(ms.At(i))
		}
	}
	return nil
}

// sortSlice: insertion sort driven by the user's less function (stable);
// comparisons on symbolic data fork through the less function's branches.
func (e *Exec) sortSlice(x, less Value, stable bool) Value {
	iv := x.(IfaceV)
	s := iv.V.(SliceV)
	lf := less.(*FuncV)
	for i := 1; i < s.Len; i++ {
		for j := i; j > 0; j-- {
			r := e.callFunc(lf, []Value{e.mkInt(j), e.mkInt(j - 1)}, "sort.less").(*Term)
			if !e.branch(r) {
				break
			}
			a, b := s.Arr.Kids[s.Off+j], s.Arr.Kids[s.Off+j-1]
			va, vb := e.load(a), e.load(b)
			e.store(a, vb)
			e.store(b, va)
		}
	}
	return nil
}
