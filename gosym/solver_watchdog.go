package gosym

import "time"

// watchdog kills the solver process if a query overruns its soft timeout by a
// wide margin (z3's :timeout is not honoured inside every tactic). The read
// then fails, readResult restarts the process and the caller sees "unknown".
func (s *Solver) watchdog() *time.Timer {
	ms := s.timeout
	if s.cur > ms {
		ms = s.cur
	}
	d := time.Duration(ms)*time.Millisecond + 15*time.Second
	cmd := s.cmd
	return time.AfterFunc(d, func() {
		if cmd != nil && cmd.Process != nil {
			cmd.Process.Kill()
		}
	})
}

// restartAfterDeath brings up a fresh process with the same push depth; all
// assertions are lost (Lost is set so the executor re-asserts its path condition).
func (s *Solver) restartAfterDeath() {
	depth := len(s.defined) - 1
	s.cmd.Wait()
	s.start()
	for i := 0; i < depth; i++ {
		s.raw("(push 1)")
		s.defined = append(s.defined, map[int]bool{})
		s.decl = append(s.decl, map[string]bool{})
		s.lines = append(s.lines, nil)
	}
	s.Lost = true
	s.Restarts++
}
