//go:build verif

package governance

import (
	"context"
	"database/sql"
	"time"

	"github.com/basekick-labs/arc/internal/config"
	zz "github.com/basekick-labs/arc/internal/zzverif"
)

// VerifC28Window: k calls to Allow() at arbitrary non-decreasing instants, with one
// UpdateLimit at an arbitrary position. For every call j, the number of admitted
// calls whose instant lies in (t_j - W, t_j] must not exceed the limit in force.
func VerifC28Window() {
	slots := zz.ParamInt("slots", 2)
	limit := zz.ParamInt("limit", 1)
	k := zz.ParamInt("calls", 3)
	d := time.Duration(zz.ParamInt("slot_ms", 1000)) * time.Millisecond
	w := d * time.Duration(slots)
	zz.ClockMonotone()
	zz.Unwind(slots + 3)
	s := newSlidingWindowCounter(w, slots, limit)
	times := make([]time.Time, k)
	ok := make([]bool, k)
	for i := 0; i < k; i++ {
		ok[i] = s.Allow()
		times[i] = zz.LastNow()
	}
	for j := 0; j < k; j++ {
		cnt := 0
		lo := times[j].Add(-w)
		// The slotted counter sums the current slot and the previous slots-1 slots:
		// it covers [trunc_d(t_j) - W + d, t_j], between W-d and W long. Admissions
		// in the uncovered head (t_j - W, trunc_d(t_j) - W + d) are the listed
		// finding C28-window-undercovers-by-one-slot; anything else is unlisted.
		covered := times[j].Truncate(d).Add(-w + d)
		head := false
		for i := 0; i <= j; i++ {
			in := zz.And(ok[i], times[i].After(lo))
			cnt += zz.IteInt(in, 1, 0)
			head = zz.Or(head, zz.And(in, times[i].Before(covered)))
		}
		zz.Known("C28-window-undercovers-by-one-slot", head)
		zz.Assert(cnt <= limit, "more than `limit` queries admitted inside one window of length W")
		zz.ClearKnown()
	}
	zz.Reach("end")
}

// VerifC28LimitUpdate: a limit change applies to the very next request.
func VerifC28LimitUpdate() {
	slots := zz.ParamInt("slots", 2)
	d := time.Second
	w := d * time.Duration(slots)
	l1 := zz.Int("limit1")
	l2 := zz.Int("limit2")
	zz.Assume(zz.And(l1 >= 1, l1 <= 3))
	zz.Assume(zz.And(l2 >= 1, l2 <= 3))
	zz.ClockMonotone()
	zz.Unwind(slots + 3)
	s := newSlidingWindowCounter(w, slots, l1)
	for i := 0; i < 3; i++ {
		s.Allow()
	}
	tUpd := zz.LastNow()
	admitted := s.total // admissions still inside the counter's window at tUpd
	s.UpdateLimit(l2)
	ok := s.Allow()
	tNext := zz.LastNow()
	// within one slot nothing has expired: the next request sees exactly `admitted`
	same := tNext.Truncate(d).Equal(tUpd.Truncate(d))
	zz.Assert(zz.Implies(zz.And(same, admitted >= l2), !ok), "request admitted although the new (lower) limit is already reached")
	zz.Assert(zz.Implies(zz.And(same, admitted < l2), ok), "request rejected although the new (higher) limit is not reached")
	zz.Reach("end")
}

// VerifC28Quota: k AllowQuery() calls at arbitrary non-decreasing instants; the
// number admitted inside one clock hour / one UTC day never exceeds the quota.
func VerifC28Quota() {
	k := zz.ParamInt("calls", 4)
	maxH := zz.ParamInt("max_hour", 1)
	maxD := zz.ParamInt("max_day", 2)
	zz.ClockMonotone()
	q := newQuotaTracker(maxH, maxD)
	times := make([]time.Time, k)
	ok := make([]bool, k)
	for i := 0; i < k; i++ {
		ok[i], _ = q.AllowQuery()
		times[i] = zz.LastNow()
	}
	for j := 0; j < k; j++ {
		ch, cd := 0, 0
		hj := times[j].Truncate(time.Hour)
		dj := times[j].Truncate(24 * time.Hour)
		for i := 0; i <= j; i++ {
			ch += zz.IteInt(zz.And(ok[i], times[i].Truncate(time.Hour).Equal(hj)), 1, 0)
			cd += zz.IteInt(zz.And(ok[i], times[i].Truncate(24*time.Hour).Equal(dj)), 1, 0)
		}
		zz.Assert(ch <= maxH, "hourly quota exceeded within one clock hour")
		zz.Assert(cd <= maxD, "daily quota exceeded within one UTC day")
	}
	zz.Reach("end")
}

// VerifC28QuotaUpdate: quota changes apply to the next request.
func VerifC28QuotaUpdate() {
	zz.ClockMonotone()
	q := newQuotaTracker(2, 5)
	a1, _ := q.AllowQuery()
	t1 := zz.LastNow()
	q.UpdateLimits(1, 5)
	a2, _ := q.AllowQuery()
	t2 := zz.LastNow()
	same := t1.Truncate(time.Hour).Equal(t2.Truncate(time.Hour))
	zz.Assert(a1, "first query under quota 2 rejected")
	zz.Assert(zz.Implies(same, !a2), "query admitted in the same hour after the hourly quota was lowered to 1")
	zz.Reach("end")
}

// VerifC28Manager: the Manager consults the limiter/tracker built for the current
// policy, and a request rejected by the rate limit does not touch the quota tracker.
func VerifC28Manager() {
	zz.ClockMonotone()
	zz.ClockSpan(3 * time.Second) // bound: the 60-slot loop runs <= 3 times per call
	zz.Unwind(70)
	m := &Manager{
		config:         &config.GovernanceConfig{DefaultRateLimitPerMin: 1, DefaultMaxQueriesPerHour: 5},
		minuteLimiters: map[int64]*slidingWindowCounter{},
		hourLimiters:   map[int64]*slidingWindowCounter{},
		quotaTrackers:  map[int64]*quotaTracker{},
		policies:       map[int64]*Policy{},
	}
	tok := zz.Int64("token")
	r1 := m.CheckRateLimit(tok)
	t1 := zz.LastNow()
	t0 := t1
	q1 := m.CheckQuota(tok)
	r2 := m.CheckRateLimit(tok)
	t2 := zz.LastNow()
	zz.Assert(zz.And(r1.Allowed, q1.Allowed), "first request rejected")
	sameSlot := t1.Truncate(time.Second).Equal(t2.Truncate(time.Second))
	zz.Assert(zz.Implies(sameSlot, !r2.Allowed), "second request in the same second admitted with limit 1/min")
	// rejected by the rate limit: the handler returns before CheckQuota, so usage stays 1
	tr := m.quotaTrackers[tok]
	zz.Assert(tr != nil, "no quota tracker created")
	if tr != nil {
		zz.Assert(zz.Implies(!r2.Allowed, tr.queriesThisHour == 1), "rate-limited request consumed quota")
	}
	// a different token has its own limiter
	other := zz.Int64("other")
	zz.Assume(other != tok)
	r3 := m.CheckRateLimit(other)
	_ = t0
	zz.Assert(r3.Allowed, "token throttled by another token's limiter")
	zz.Reach("end")
}

// ---- a per-token policy created or changed while the token already has trackers ----

type c28Result struct{}

func (c28Result) LastInsertId() (int64, error) { return 1, nil }
func (c28Result) RowsAffected() (int64, error) { return 1, nil }

func c28Exec(db *sql.DB, ctx context.Context, q string, args ...interface{}) (sql.Result, error) {
	return c28Result{}, nil
}

// VerifC28PolicyChange: a token has already issued one query (its limiters and quota tracker
// exist, built under the limits in force then - the config defaults, or an earlier
// per-token policy). Then an administrator creates (or updates) a per-token policy with
// stricter limits: 1 query per minute, 1 per hour. The change applies to the next request:
// within the same window the second query must be refused by the rate limit, and the quota
// must report the hour as used up.
func VerifC28PolicyChange() {
	zz.ClockFixed(1700000000000000000)
	zz.Unwind(70)
	m := &Manager{
		db:             &sql.DB{},
		config:         &config.GovernanceConfig{DefaultRateLimitPerMin: 3, DefaultMaxQueriesPerHour: 5},
		minuteLimiters: map[int64]*slidingWindowCounter{},
		hourLimiters:   map[int64]*slidingWindowCounter{},
		quotaTrackers:  map[int64]*quotaTracker{},
		policies:       map[int64]*Policy{},
	}
	tok := int64(7)
	update := zz.Bool("policy_existed_before")
	if update {
		m.policies[tok] = &Policy{TokenID: tok, RateLimitPerMinute: 3, MaxQueriesPerHour: 5}
	}
	r1 := m.CheckRateLimit(tok)
	q1 := m.CheckQuota(tok)
	zz.Assert(r1.Allowed && q1.Allowed, "first request rejected")
	strict := &Policy{TokenID: tok, RateLimitPerMinute: 1, MaxQueriesPerHour: 1}
	var err error
	if update {
		_, err = m.UpdatePolicy(context.Background(), strict)
	} else {
		_, err = m.CreatePolicy(context.Background(), strict)
	}
	zz.Assert(err == nil, "policy change failed")
	r2 := m.CheckRateLimit(tok)
	zz.Assert(!r2.Allowed, "a second query in the same minute was admitted although the token's policy now allows 1 per minute")
	q2 := m.CheckQuota(tok)
	zz.Assert(!q2.Allowed, "a second query in the same hour was admitted although the token's policy now allows 1 per hour")
	zz.Reach("end")
}

// VerifC28ConcurrentFirst: two requests of a token that has no limiter or tracker yet (after
// start-up, or after DeletePolicy dropped them) arrive concurrently, every interleaving of
// their lock operations (bounded preemptions). With a limit of 1 per minute and a quota of 1
// per hour at one instant, at most one of them is admitted by the rate limit and at most one
// by the quota - whichever goroutine creates the limiter, both must be counted on the same one.
func VerifC28ConcurrentFirst() {
	zz.ClockFixed(1700000000000000000)
	zz.Unwind(70)
	m := &Manager{
		config:         &config.GovernanceConfig{DefaultRateLimitPerMin: 1, DefaultMaxQueriesPerHour: 1},
		minuteLimiters: map[int64]*slidingWindowCounter{},
		hourLimiters:   map[int64]*slidingWindowCounter{},
		quotaTrackers:  map[int64]*quotaTracker{},
		policies:       map[int64]*Policy{},
	}
	tok := int64(7)
	var r1, r2 *EnforcementResult
	var q1, q2 *EnforcementResult
	useQuota := zz.Bool("quota_instead_of_rate_limit")
	zz.Threads(
		func() {
			if useQuota {
				q1 = m.CheckQuota(tok)
			} else {
				r1 = m.CheckRateLimit(tok)
			}
		},
		func() {
			if useQuota {
				q2 = m.CheckQuota(tok)
			} else {
				r2 = m.CheckRateLimit(tok)
			}
		},
	)
	if useQuota {
		zz.Assert(!(q1.Allowed && q2.Allowed), "two concurrent first queries were both admitted against an hourly quota of 1")
	} else {
		zz.Assert(!(r1.Allowed && r2.Allowed), "two concurrent first queries were both admitted against a rate limit of 1 per minute")
	}
	zz.Reach("end")
}
