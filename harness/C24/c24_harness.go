//go:build verif

package replication

import (
	"context"
	"crypto/tls"
	"encoding/json"
	"errors"
	"hash"
	"io"
	"net"
	"time"

	"github.com/basekick-labs/arc/internal/cluster/protocol"
	zz "github.com/basekick-labs/arc/internal/zzverif"
	"github.com/rs/zerolog"
)

// ---- the wire: a script of frames handed out by the ReadMessage stand-in ----

type c24Frame struct {
	typ     byte
	payload []byte
}

var c24Script []c24Frame
var c24Next int

func c24ReadMessage(r interface{ Read([]byte) (int, error) }) (byte, []byte, error) {
	if c24Next >= len(c24Script) {
		return 0, nil, errors.New("read length: EOF")
	}
	f := c24Script[c24Next]
	c24Next++
	return f.typ, f.payload, nil
}

type c24Conn struct{}

func (c24Conn) Read(b []byte) (int, error)         { return 0, errors.New("closed") }
func (c24Conn) Write(b []byte) (int, error)        { return len(b), nil }
func (c24Conn) Close() error                       { return nil }
func (c24Conn) LocalAddr() net.Addr                { return nil }
func (c24Conn) RemoteAddr() net.Addr               { return nil }
func (c24Conn) SetDeadline(t time.Time) error      { return nil }
func (c24Conn) SetReadDeadline(t time.Time) error  { return nil }
func (c24Conn) SetWriteDeadline(t time.Time) error { return nil }

type c24Hash struct{}

func (c24Hash) Write(p []byte) (int, error) { return len(p), nil }
func (c24Hash) Sum(b []byte) []byte         { return append(b, make([]byte, 32)...) }
func (c24Hash) Reset()                      {}
func (c24Hash) Size() int                   { return 32 }
func (c24Hash) BlockSize() int              { return 64 }
func c24NewHash() hash.Hash                  { return c24Hash{} }

// recorder: what reaches the local ingest path, in order
type c24Recorder struct{ applied []byte }

func (r *c24Recorder) ApplyReplicatedEntry(ctx context.Context, payload []byte) error {
	if len(payload) == 1 {
		r.applied = append(r.applied, payload[0])
	}
	return nil
}

// VerifC24Receive: the receiver is fed k entry frames with arbitrary sequence numbers,
// every one carrying a MAC tag that verifies (a wire adversary that replays, duplicates or
// reorders GENUINE frames of this connection). The entries that reach the local ingest
// path must have strictly increasing sequence numbers (no entry applied twice, none out
// of order), starting above the sequence the receiver had already reached.
func VerifC24Receive() {
	k := zz.ParamInt("frames", 3)
	rec := &c24Recorder{}
	r := &Receiver{cfg: &ReceiverConfig{ReaderID: "r1", ClusterName: "c", IngestHandler: rec}, logger: zerolog.Nop(),
		ctx: context.Background(), conn: c24Conn{}, sessionKey: []byte("k")}
	r.running.Store(true)
	start := zz.Uint64("last_seq_at_connect")
	r.lastSeq.Store(start)
	seqs := make([]uint64, k)
	c24Script, c24Next = nil, 0
	for i := 0; i < k; i++ {
		seqs[i] = zz.Uint64("seq")
		b, err := json.Marshal(ReplicateEntry{Sequence: seqs[i], TimestampUS: 1, Payload: []byte{byte(i)}, Tag: "0011223344556677"})
		zz.Assert(err == nil, "marshal")
		c24Script = append(c24Script, c24Frame{typ: MsgReplicateEntry, payload: b})
	}
	r.receiveLoop()
	last := start
	for _, idx := range rec.applied {
		s := seqs[int(idx)]
		zz.Assert(s > last, "an entry whose sequence number does not advance the stream was applied (replayed, duplicated or reordered frame)")
		last = s
	}
	zz.Assert(r.lastSeq.Load() == last, "the receiver's last sequence differs from the last applied entry")
	if len(rec.applied) == k {
		zz.Reach("all-applied")
	}
	zz.Reach("end")
}

// VerifC24Send: n writers hand entries to Sender.Replicate concurrently (the WAL
// replication hook runs on every ingest goroutine). For every schedule of their atomic and
// channel operations: the entries leave the queue in strictly increasing sequence order
// (the order the receiver insists on), and every sequence number that is missing from the
// queue was counted as dropped.
func VerifC24Send() {
	n := zz.ParamInt("writers", 2)
	s := &Sender{cfg: &SenderConfig{BufferSize: zz.ParamInt("buffer", 2)}, logger: zerolog.Nop(), entryChan: make(chan *ReplicateEntry, zz.ParamInt("buffer", 2))}
	s.running.Store(true)
	var ws []func()
	for i := 0; i < n; i++ {
		id := byte(i)
		ws = append(ws, func() { s.Replicate(&ReplicateEntry{Payload: []byte{id}}) })
	}
	zz.Threads(ws...)
	last := uint64(0)
	queued := 0
	for len(s.entryChan) > 0 {
		e := <-s.entryChan
		zz.Assert(e.Sequence > last, "entries were queued for the readers out of sequence order (the receiver drops the connection on a sequence that does not advance)")
		last = e.Sequence
		queued++
	}
	zz.Assert(int64(n-queued) == s.totalEntriesDropped.Load(), "a sequence number is missing from the stream without being counted as dropped")
	zz.Assert(s.sequence.Load() == uint64(n), "sequence numbers were not assigned one per entry")
	zz.Reach("end")
}

// ---- reconnect: the handshake must not move the receiver's applied position ----

var c24Ack *protocol.ReplicateSyncAck

func c24Dial(network, addr string, timeout time.Duration, tlsCfg *tls.Config) (net.Conn, error) {
	return c24Conn{}, nil
}
func c24Nonce() (string, error) { return "nonce", nil }
func c24RecvAck(conn net.Conn, timeout time.Duration) (*protocol.Message, error) {
	return &protocol.Message{Type: protocol.MsgReplicateSyncAck, Payload: c24Ack}, nil
}
func c24SessionKey(secret, nonce string) ([]byte, error) { return []byte("k"), nil }

// VerifC24Reconnect: a reader that has applied everything up to sequence L reconnects: the
// real Receiver.connect runs the handshake against an arbitrary acknowledgement (any
// current sequence of the writer, resumable or not), then the real receiveLoop is fed two
// genuine frames whose sequence numbers advance beyond L. Whatever the acknowledgement
// said, both are applied, in order: the handshake must not make the receiver reject (and
// so lose) entries it has not applied yet.
func VerifC24Reconnect() {
	rec := &c24Recorder{}
	r := &Receiver{cfg: &ReceiverConfig{ReaderID: "r1", ClusterName: "c", SharedSecret: "s", WriterAddr: "w:9100", IngestHandler: rec}, logger: zerolog.Nop(),
		ctx: context.Background()}
	r.running.Store(true)
	last := zz.Uint64("applied_before_reconnect")
	r.lastSeq.Store(last)
	c24Ack = &protocol.ReplicateSyncAck{CurrentSequence: zz.Uint64("writer_current_sequence"), CanResume: zz.Bool("can_resume")}
	err := r.connect()
	zz.Assert(err == nil, "handshake with an accepting writer failed")
	s1, s2 := zz.Uint64("seq_1"), zz.Uint64("seq_2")
	zz.Assume(s1 > last && s2 > s1)
	c24Script, c24Next = nil, 0
	for i, s := range []uint64{s1, s2} {
		b, merr := json.Marshal(ReplicateEntry{Sequence: s, TimestampUS: 1, Payload: []byte{byte(i)}, Tag: "0011223344556677"})
		zz.Assert(merr == nil, "marshal")
		c24Script = append(c24Script, c24Frame{typ: MsgReplicateEntry, payload: b})
	}
	r.receiveLoop()
	zz.Assert(len(rec.applied) == 2 && rec.applied[0] == 0 && rec.applied[1] == 1, "an entry the reader had not applied yet was rejected after a reconnect")
	zz.Assert(r.lastSeq.Load() == s2, "the receiver's last sequence differs from the last applied entry")
	zz.Reach("end")
}

// ---- checkpoints: they speak about what was SENT on the connection ----

type c24Wire struct {
	kind string // "entry" | "checkpoint"
	seq  uint64
}

var c24Sent []c24Wire

func c24WriteEntry(w io.Writer, e *ReplicateEntry) error {
	c24Sent = append(c24Sent, c24Wire{"entry", e.Sequence})
	return nil
}
func c24WriteCheckpoint(w io.Writer, cp *ReplicateCheckpoint) error {
	c24Sent = append(c24Sent, c24Wire{"checkpoint", cp.LastSequence})
	return nil
}

// VerifC24Checkpoint: writers have handed n entries to Replicate (their sequence numbers
// are assigned, the entries wait in the queue); the real sendToReader then streams the
// first k of them to one reader, emitting checkpoints at the configured interval. Every
// checkpoint must name the sequence of the last entry written on that connection before it
// - which is what the receiver compares it with - not a sequence that is still queued.
func VerifC24Checkpoint() {
	zz.ClockFixed(1700000000000000000)
	n := 3
	s := &Sender{cfg: &SenderConfig{SharedSecret: "s", LocalNodeID: "w1", ClusterName: "c", CheckpointInterval: 1 + zz.Choice("checkpoint_interval", 2), WriteTimeout: time.Second, BufferSize: 8},
		logger: zerolog.Nop(), entryChan: make(chan *ReplicateEntry, 8)}
	s.running.Store(true)
	for i := 0; i < n; i++ {
		s.Replicate(&ReplicateEntry{TimestampUS: 1, Payload: []byte{byte(i)}})
	}
	zz.Assert(len(s.entryChan) == n, "entries were not queued")
	var queued []*ReplicateEntry
	for i := 0; i < n; i++ {
		queued = append(queued, <-s.entryChan) // what distributionLoop takes, one at a time
	}
	reader := &ReaderConnection{id: "r1", conn: c24Conn{}, ctx: context.Background(), cumulativeHash: c24Hash{}}
	c24Sent = nil
	k := 1 + zz.Choice("entries_streamed", n)
	for i := 0; i < k; i++ {
		zz.Assert(s.sendToReader(reader, queued[i], [32]byte{}) == nil, "send failed")
	}
	last := uint64(0)
	sawCheckpoint := false
	for _, wv := range c24Sent {
		if wv.kind == "entry" {
			zz.Assert(wv.seq > last, "entries left the connection out of order")
			last = wv.seq
		} else {
			zz.Assert(wv.seq == last, "a checkpoint names a sequence other than that of the last entry sent on the connection (the receiver drops the connection on the mismatch)")
			sawCheckpoint = true
		}
	}
	if sawCheckpoint {
		zz.Reach("checkpoint")
	}
	zz.Reach("end")
}
