//go:build verif

package api

import (
	"context"
	"database/sql"
	"errors"
	"time"

	"github.com/basekick-labs/arc/internal/database"
	"github.com/basekick-labs/arc/internal/ingest"
	zz "github.com/basekick-labs/arc/internal/zzverif"
	"github.com/rs/zerolog"
)

// ---- the DuckDB result of the aggregation query: k rows of (time, v) ----

var (
	c29Rows     [][2]interface{}
	c29Pos      int
	c29QueryErr bool
	c29IterErr  bool
)

func c29Query(d *database.DuckDB, q string, args ...interface{}) (*sql.Rows, error) {
	if c29QueryErr {
		return nil, errors.New("duckdb: query failed")
	}
	c29Pos = 0
	return &sql.Rows{}, nil
}
func c29Columns(r *sql.Rows) ([]string, error) { return []string{"time", "v"}, nil }
func c29Next(r *sql.Rows) bool {
	if c29Pos < len(c29Rows) {
		c29Pos++
		return true
	}
	return false
}
func c29Scan(r *sql.Rows, dest ...interface{}) error {
	row := c29Rows[c29Pos-1]
	for i := range dest {
		*dest[i].(*interface{}) = row[i]
	}
	return nil
}
func c29Err(r *sql.Rows) error {
	if c29IterErr {
		return errors.New("duckdb: result iteration failed")
	}
	return nil
}
func c29Wrap(query, db, m, expr string) string { return query }

// c29Ctx: a context that may already be cancelled (the scheduler stopped or reloaded the job,
// the deadline hit) while the aggregation runs.
type c29Ctx struct{ cancelled bool }

func (c c29Ctx) Deadline() (time.Time, bool) { return time.Time{}, false }
func (c c29Ctx) Done() <-chan struct{}       { return nil }
func (c c29Ctx) Err() error {
	if c.cancelled {
		return context.Canceled
	}
	return nil
}
func (c c29Ctx) Value(key interface{}) interface{} { return nil }

// VerifC29Aggregation: the real executeAggregation over a DuckDB result of 0..2 rows. It
// may report a window as processed (nil error) only if every row of the result reached the
// buffering layer under the destination measurement and its count is reported - whether or
// not the context was cancelled meanwhile, a result iteration error occurred, or the buffer
// refused the write. A window reported as processed advances last_processed_time, so rows
// that were read but not written would be lost for good.
func VerifC29Aggregation() {
	zz.ClockFixed(1700000000000000000)
	k := zz.Choice("result_rows", 3)
	c29Rows = nil
	for i := 0; i < k; i++ {
		c29Rows = append(c29Rows, [2]interface{}{int64(1700000000000000 + i), float64(i)})
	}
	c29QueryErr = zz.Bool("query_fails")
	c29IterErr = zz.Bool("iteration_fails")
	ingest.VerifObserved = nil
	h := &ContinuousQueryHandler{db: &database.DuckDB{}, arrowBuffer: ingest.VerifNewBuffer(), logger: zerolog.Nop()}
	cq := &ContinuousQuery{Name: "q", Database: "db", SourceMeasurement: "cpu", DestinationMeasurement: "cpu_1h"}
	ctx := c29Ctx{cancelled: zz.Bool("context_cancelled")}
	n, err := h.executeAggregation(ctx, cq, "SELECT time, v FROM db.cpu", time.Unix(1700000000, 0).UTC(), time.Unix(1700003600, 0).UTC())
	if err == nil {
		zz.Assert(n == int64(k), "a window was reported as processed with another row count than the aggregation returned")
		written := 0
		for _, w := range ingest.VerifObserved {
			zz.Assert(w.Database == "db" && w.Measurement == "cpu_1h", "aggregated rows were written somewhere else")
			written += len(w.Columns["time"])
		}
		zz.Assert(written == k, "a window was reported as processed although not every aggregated row reached the buffer")
		zz.Reach("processed")
	} else {
		zz.Reach("failed")
	}
}
