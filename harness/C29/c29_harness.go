//go:build verif

package api

import (
	"context"
	"database/sql"
	"errors"
	"time"

	zz "github.com/basekick-labs/arc/internal/zzverif"
	"github.com/rs/zerolog"
)

// ---- the one continuous_queries row and the execution log, as a model of SQLite ----

var c29LastProcessed *string // continuous_queries.last_processed_time
var c29Pending *string       // value bound by the open transaction's UPDATE
var c29CommitFails bool

func c29GetQuery(h *ContinuousQueryHandler, queryID int64) (*ContinuousQuery, error) {
	return &ContinuousQuery{ID: queryID, Name: "cq", Database: "db", SourceMeasurement: "src", DestinationMeasurement: "dst",
		Query: "SELECT {start_time} .. {end_time}", Interval: "1m", IsActive: true, LastProcessedTime: c29LastProcessed}, nil
}

func c29Begin(db *sql.DB) (*sql.Tx, error) { c29Pending = nil; return &sql.Tx{}, nil }

func c29TxExec(tx *sql.Tx, query string, args ...interface{}) (sql.Result, error) {
	if len(query) > 0 && containsStr(query, "UPDATE continuous_queries SET last_processed_time") {
		if s, ok := args[0].(string); ok {
			c29Pending = &s
		}
	}
	return nil, nil
}

func containsStr(s, sub string) bool {
	for i := 0; i+len(sub) <= len(s); i++ {
		if s[i:i+len(sub)] == sub {
			return true
		}
	}
	return false
}

func c29Commit(tx *sql.Tx) error {
	if c29CommitFails {
		return errors.New("commit failed")
	}
	if c29Pending != nil {
		c29LastProcessed = c29Pending
	}
	return nil
}

// ---- the aggregation (DuckDB): observation point ----

type c29Run struct {
	query string
	label time.Time
	end   time.Time
}

var c29Runs []c29Run
var c29AggFails bool

func c29Aggregate(h *ContinuousQueryHandler, ctx context.Context, cq *ContinuousQuery, query string, startTime, endTime time.Time) (int64, error) {
	c29Runs = append(c29Runs, c29Run{query: query, label: startTime, end: endTime})
	if c29AggFails {
		return 0, errors.New("aggregation failed")
	}
	return 3, nil
}

// c29Window splits the executed query text "SELECT 'A' .. 'B'" into its two literals.
func c29Window(q string) (string, string) {
	// "SELECT '" = 8 bytes, literal 20 bytes, "' .. '" = 6 bytes, literal 20 bytes, "'"
	if len(q) != 8+20+6+20+1 {
		return "", ""
	}
	return q[8:28], q[34:54]
}

// VerifC29Scheduled: two successive scheduled executions at arbitrary instants (the second
// not before the first), the first aggregation succeeding or failing, the bookkeeping
// commit succeeding or failing.
func VerifC29Scheduled() {
	zz.TimeFormatDigits()
	zz.ClockMonotone()
	h := &ContinuousQueryHandler{logger: zerolog.Nop()}
	if zz.Bool("has_last_processed") {
		lp := zz.Time("last_processed").Format(time.RFC3339)
		c29LastProcessed = &lp
	} else {
		c29LastProcessed = nil
	}
	hadStart := c29LastProcessed != nil
	c29Runs = nil
	c29AggFails = zz.Bool("first_aggregation_fails")
	c29CommitFails = zz.Bool("first_commit_fails")
	_, err1 := h.ExecuteCQ(context.Background(), 1)
	if len(c29Runs) == 0 {
		// rejected before executing (start not before end): nothing may have moved
		zz.Assert(err1 != nil, "no window executed but success reported")
		zz.Reach("first-rejected")
		return
	}
	s1, e1 := c29Window(c29Runs[0].query)
	zz.Assert(s1 != "" && e1 != "", "executed query does not carry both window literals")
	lbl1 := c29Runs[0].label.Format(time.RFC3339)
	zz.Assert(zz.EqStr(lbl1, s1), "aggregation was labelled with another instant than the window start")
	stored := c29LastProcessed
	aggFailed := c29AggFails
	advanced := !c29AggFails && !c29CommitFails
	if advanced {
		zz.Assert(err1 == nil, "successful execution reported as failed")
		zz.Assert(stored != nil && zz.EqStr(*stored, e1), "after a successful execution the stored last_processed_time is not the window end")
	} else if aggFailed {
		zz.Assert(err1 != nil, "failed aggregation reported as success")
	}
	// second tick
	c29AggFails, c29CommitFails = false, false
	_, _ = h.ExecuteCQ(context.Background(), 1)
	if len(c29Runs) < 2 {
		zz.Reach("second-rejected")
		return
	}
	s2, e2 := c29Window(c29Runs[1].query)
	_ = e2
	if advanced {
		zz.Assert(zz.EqStr(s2, e1), "windows are not contiguous: the next window does not start where the previous one ended")
	} else if hadStart {
		// the first execution was not recorded as processed: the same start is retried
		zz.Assert(zz.EqStr(s2, s1), "a window whose execution was not recorded is not retried from the same start")
	}
	zz.Assert(c29Runs[1].label.Before(c29Runs[1].end), "a window with start >= end was executed")
	zz.Reach("end")
}

