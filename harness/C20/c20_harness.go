//go:build verif

package auth

import (
	"context"
	"database/sql"
	"errors"
	"strings"
	"time"

	zz "github.com/basekick-labs/arc/internal/zzverif"
	"github.com/rs/zerolog"
)

// ---- database/sql boundary: every call returns an arbitrary outcome; the SQL text of the
// statements that succeed is recorded (verb + table) ----

type c20Stmt struct{ verb, table string }

var c20Done []c20Stmt // mutating statements that were executed successfully on this path

type c20Result struct{ rows, id int64 }

func (r c20Result) LastInsertId() (int64, error) { return r.id, nil }
func (r c20Result) RowsAffected() (int64, error) { return r.rows, nil }

func c20Classify(q string) c20Stmt {
	f := strings.Fields(q)
	for i, w := range f {
		u := strings.ToUpper(w)
		switch {
		case u == "INSERT" && i+2 < len(f):
			return c20Stmt{"INSERT", f[i+2]}
		case u == "DELETE" && i+2 < len(f):
			return c20Stmt{"DELETE", f[i+2]}
		case u == "UPDATE" && i+1 < len(f):
			return c20Stmt{"UPDATE", f[i+1]}
		case u == "SELECT":
			return c20Stmt{"SELECT", ""}
		}
	}
	return c20Stmt{"?", ""}
}

func c20ExecOutcome(q string) (sql.Result, error) {
	st := c20Classify(q)
	switch zz.Choice("exec_outcome", 3) {
	case 1:
		return nil, errors.New("UNIQUE constraint failed: name")
	case 2:
		return nil, errors.New("database is locked")
	}
	rows := int64(1)
	if zz.Bool("no_row_matched") {
		rows = 0
	}
	if rows > 0 || st.verb == "INSERT" {
		c20Done = append(c20Done, st)
	}
	return c20Result{rows: rows, id: 5}, nil
}

func c20ExecContext(db *sql.DB, ctx context.Context, q string, args ...interface{}) (sql.Result, error) {
	return c20ExecOutcome(q)
}
func c20Exec(db *sql.DB, q string, args ...interface{}) (sql.Result, error) { return c20ExecOutcome(q) }
func c20TxExec(tx *sql.Tx, q string, args ...interface{}) (sql.Result, error) {
	return c20ExecOutcome(q)
}
func c20Begin(db *sql.DB) (*sql.Tx, error) {
	if zz.Bool("begin_fails") {
		return nil, errors.New("begin failed")
	}
	return &sql.Tx{}, nil
}
func c20Commit(tx *sql.Tx) error {
	if zz.Bool("commit_fails") {
		c20Done = nil // rolled back
		return errors.New("commit failed")
	}
	return nil
}
func c20QueryRow(db *sql.DB, q string, args ...interface{}) *sql.Row { return &sql.Row{} }
func c20QueryRowContext(db *sql.DB, ctx context.Context, q string, args ...interface{}) *sql.Row {
	return &sql.Row{}
}

// Scan: found (destinations keep their zero values - any value is as good), no rows, or error
func c20Scan(r *sql.Row, dest ...interface{}) error {
	switch zz.Choice("scan_outcome", 3) {
	case 1:
		return sql.ErrNoRows
	case 2:
		return errors.New("database is locked")
	}
	return nil
}
func c20Query(db *sql.DB, q string, args ...interface{}) (*sql.Rows, error) {
	return nil, errors.New("query not modelled")
}

// ---- dependency of cached decisions on stored rows ----
// A decision reads: the token's memberships, the teams they name (incl. enabled), the roles
// of those teams, the measurement permissions of those roles. Organization columns are not
// read, but deleting an organization cascades to its teams.
//   all     : every cached entry may be stale
//   token   : the entries of the affected token may be stale
//   nothing : no cached decision can change
func c20Needs(st c20Stmt) string {
	switch st.table {
	case "rbac_organizations":
		if st.verb == "DELETE" {
			return "all"
		}
		return "nothing"
	case "rbac_teams":
		if st.verb == "INSERT" {
			return "nothing"
		}
		return "all"
	case "rbac_roles", "rbac_measurement_permissions":
		return "all"
	case "rbac_token_memberships":
		return "token"
	}
	return "nothing"
}

func c20Manager() *RBACManager {
	rm := &RBACManager{db: &sql.DB{}, logger: zerolog.Nop(), tokenCacheTTL: time.Minute, permCacheTTL: time.Minute, maxCacheSize: 100,
		tokenCache: map[int64]*tokenRBACData{}, permCache: map[permissionCacheKey]*permissionCacheEntry{}}
	// decisions cached before the mutation, for two tokens
	for _, id := range []int64{1, 2} {
		// the two caches are evicted and expired independently: a decision can outlive the
		// token data it was computed from
		if !zz.Bool("token_data_evicted_" + string(rune('0'+id))) {
			rm.tokenCache[id] = &tokenRBACData{}
		}
		rm.permCache[permissionCacheKey{tokenID: id, database: "prod", permission: "write"}] = &permissionCacheEntry{result: &PermissionCheckResult{Allowed: true, Source: "rbac"}, expiresAt: time.Now().Add(time.Hour)}
	}
	return rm
}

func c20CheckCaches(rm *RBACManager, err error, what string) {
	if err != nil {
		zz.Reach("error")
		return
	}
	need := "nothing"
	for _, st := range c20Done {
		switch c20Needs(st) {
		case "all":
			need = "all"
		case "token":
			if need == "nothing" {
				need = "token"
			}
		}
	}
	stale1, stale2 := false, false
	if _, ok := rm.tokenCache[1]; ok {
		stale1 = true
	}
	if _, ok := rm.tokenCache[2]; ok {
		stale2 = true
	}
	for k := range rm.permCache {
		if k.tokenID == 1 {
			stale1 = true
		}
		if k.tokenID == 2 {
			stale2 = true
		}
	}
	switch need {
	case "all":
		zz.Assert(!stale1 && !stale2, what+" changed stored RBAC state that cached permission decisions depend on and returned success with those decisions still cached")
	case "token":
		zz.Assert(!stale1, what+" changed a token's team membership and returned success with that token's decisions still cached")
	}
	zz.Reach("ok")
}

// VerifC20Direct: every mutating method of RBACManager in direct-database (OSS) mode.
func VerifC20Direct() {
	ctx := context.Background()
	rm := c20Manager()
	c20Done = nil
	name, desc, en := "n", "d", true
	var err error
	what := ""
	switch zz.Choice("method", 13) {
	case 0:
		what = "CreateOrganization"
		_, err = rm.CreateOrganization(ctx, &CreateOrganizationRequest{Name: "acme"})
	case 1:
		what = "UpdateOrganization"
		err = rm.UpdateOrganization(ctx, 1, &UpdateOrganizationRequest{Name: &name, Description: &desc, Enabled: &en})
	case 2:
		what = "DeleteOrganization"
		err = rm.DeleteOrganization(ctx, 1)
	case 3:
		what = "CreateTeam"
		_, err = rm.CreateTeam(ctx, 1, &CreateTeamRequest{Name: "team"})
	case 4:
		what = "UpdateTeam"
		err = rm.UpdateTeam(ctx, 1, &UpdateTeamRequest{Name: &name, Description: &desc, Enabled: &en})
	case 5:
		what = "DeleteTeam"
		err = rm.DeleteTeam(ctx, 1)
	case 6:
		what = "CreateRole"
		_, err = rm.CreateRole(ctx, 1, &CreateRoleRequest{DatabasePattern: "prod", Permissions: []string{"write"}})
	case 7:
		what = "UpdateRole"
		pat := "prod"
		err = rm.UpdateRole(ctx, 1, &UpdateRoleRequest{DatabasePattern: &pat, Permissions: []string{"read"}})
	case 8:
		what = "DeleteRole"
		err = rm.DeleteRole(ctx, 1)
	case 9:
		what = "CreateMeasurementPermission"
		_, err = rm.CreateMeasurementPermission(ctx, 1, &CreateMeasurementPermissionRequest{MeasurementPattern: "cpu", Permissions: []string{"read"}})
	case 10:
		what = "DeleteMeasurementPermission"
		err = rm.DeleteMeasurementPermission(ctx, 1)
	case 11:
		what = "AddTokenToTeam"
		_, err = rm.AddTokenToTeam(ctx, 1, 1)
	default:
		what = "RemoveTokenFromTeam"
		err = rm.RemoveTokenFromTeam(ctx, 1, 1)
	}
	c20CheckCaches(rm, err, what)
}

// VerifC20Apply: every cluster-apply callback (followers materialising committed commands).
func VerifC20Apply() {
	rm := c20Manager()
	c20Done = nil
	var err error
	what := ""
	org := ClusterOrganizationEntry{ID: 7, Name: "acme", CreatedAtUnixNano: 1, UpdatedAtUnixNano: 1, Enabled: zz.Bool("enabled")}
	team := ClusterTeamEntry{ID: 8, OrganizationID: 7, Name: "t", CreatedAtUnixNano: 1, UpdatedAtUnixNano: 1, Enabled: zz.Bool("enabled")}
	role := ClusterRoleEntry{ID: 9, TeamID: 8, DatabasePattern: "prod", Permissions: "write", CreatedAtUnixNano: 1}
	mp := ClusterMeasurementPermissionEntry{ID: 10, RoleID: 9, MeasurementPattern: "cpu", Permissions: "read", CreatedAtUnixNano: 1}
	mem := ClusterTokenMembershipEntry{ID: 11, TokenID: 1, TeamID: 8, CreatedAtUnixNano: 1}
	switch zz.Choice("apply", 13) {
	case 0:
		what = "ApplyCreateOrganization"
		err = rm.ApplyCreateOrganization(org)
	case 1:
		what = "ApplyUpdateOrganization"
		err = rm.ApplyUpdateOrganization(org)
	case 2:
		what = "ApplyDeleteOrganization"
		err = rm.ApplyDeleteOrganization(7)
	case 3:
		what = "ApplyCreateTeam"
		err = rm.ApplyCreateTeam(team)
	case 4:
		what = "ApplyUpdateTeam"
		err = rm.ApplyUpdateTeam(team)
	case 5:
		what = "ApplyDeleteTeam"
		err = rm.ApplyDeleteTeam(8)
	case 6:
		what = "ApplyCreateRole"
		err = rm.ApplyCreateRole(role)
	case 7:
		what = "ApplyUpdateRole"
		err = rm.ApplyUpdateRole(role)
	case 8:
		what = "ApplyDeleteRole"
		err = rm.ApplyDeleteRole(9)
	case 9:
		what = "ApplyCreateMeasurementPermission"
		err = rm.ApplyCreateMeasurementPermission(mp)
	case 10:
		what = "ApplyDeleteMeasurementPermission"
		err = rm.ApplyDeleteMeasurementPermission(10)
	case 11:
		what = "ApplyAddTokenToTeam"
		err = rm.ApplyAddTokenToTeam(mem)
	default:
		what = "ApplyRemoveTokenFromTeam"
		err = rm.ApplyRemoveTokenFromTeam(1, 8)
	}
	c20CheckCaches(rm, err, what)
}

// ---- (2) a cache hit answers the request actually presented ----

func c20TokenInfo(tag string) *TokenInfo {
	var perms []string
	for _, p := range []string{"read", "write", "admin"} {
		if zz.Bool("token_" + tag + "_has_" + p) {
			perms = append(perms, p)
		}
	}
	return &TokenInfo{ID: 1, Name: "t", Permissions: perms, Enabled: zz.Bool("token_" + tag + "_enabled")}
}

// VerifC20CacheHit: two checks (single, then single or batched) for the same token id,
// database, measurement and permission, but with arbitrary - possibly different - contents
// of the presented TokenInfo (the token's own permission list was changed in between,
// the token was disabled), against one fixed stored RBAC state: the second answer equals
// what the policy gives for the second request.
func VerifC20CacheHit() {
	zz.ClockMonotone()
	zz.ClockSpan(30 * time.Minute) // both checks fall within the cache TTL (1 h here)
	rm := &RBACManager{db: &sql.DB{}, logger: zerolog.Nop(), tokenCacheTTL: time.Hour, permCacheTTL: time.Hour, maxCacheSize: 100,
		tokenCache: map[int64]*tokenRBACData{}, permCache: map[permissionCacheKey]*permissionCacheEntry{}}
	// stored state: no membership, or one team with one role (and optionally one
	// measurement permission), from pools
	data := &tokenRBACData{roles: map[int64][]Role{}, measPerms: map[int64][]MeasurementPermission{}, loadedAt: time.Now()}
	if zz.Bool("has_team") {
		data.teams = []Team{{ID: 1, Name: "t", Enabled: zz.Bool("team_enabled")}}
		data.roles[1] = []Role{{ID: 1, TeamID: 1, DatabasePattern: zz.OneOf("role_db_pattern", "*", "prod", "prod*", "other"), Permissions: []string{zz.OneOf("role_perm", "read", "write", "admin")}}}
		if zz.Bool("has_measurement_permission") {
			data.measPerms[1] = []MeasurementPermission{{ID: 1, RoleID: 1, MeasurementPattern: zz.OneOf("mp_pattern", "*", "cpu", "mem"), Permissions: []string{zz.OneOf("mp_perm", "read", "write")}}}
		}
	}
	rm.tokenCache[1] = data
	meas := zz.OneOf("measurement", "", "cpu")
	perm := zz.OneOf("permission", "read", "write")
	first := &PermissionCheckRequest{TokenInfo: c20TokenInfo("a"), Database: "prod", Measurement: meas, Permission: perm}
	second := &PermissionCheckRequest{TokenInfo: c20TokenInfo("b"), Database: "prod", Measurement: meas, Permission: perm}
	_ = rm.CheckPermission(first)
	want := rm.checkPermissionUncached(second)
	var got *PermissionCheckResult
	if zz.Bool("second_is_batched") {
		got = rm.CheckPermissionsBatch([]*PermissionCheckRequest{second})[0]
	} else {
		got = rm.CheckPermission(second)
	}
	zz.Assert(got.Allowed == want.Allowed, "a permission check answered from the cache differs from the policy decision for the presented token")
	zz.Reach("ok")
}
