//go:build verif

package api

import (
	"bufio"
	"bytes"

	zz "github.com/basekick-labs/arc/internal/zzverif"
)

// c19Decode: reference JSON string decoder (RFC 8259 section 7). Returns the decoded bytes,
// the number of input bytes consumed, and whether the input starts with a well-formed string.
func c19Decode(in []byte) ([]byte, int, bool) {
	if len(in) < 2 || in[0] != '"' {
		return nil, 0, false
	}
	var out []byte
	i := 1
	for i < len(in) {
		c := in[i]
		switch {
		case c == '"':
			return out, i + 1, true
		case c < 0x20:
			return nil, 0, false // raw control character
		case c == '\\':
			if i+1 >= len(in) {
				return nil, 0, false
			}
			e := in[i+1]
			switch e {
			case '"', '\\', '/':
				out = append(out, e)
				i += 2
			case 'b':
				out = append(out, '\b')
				i += 2
			case 'f':
				out = append(out, '\f')
				i += 2
			case 'n':
				out = append(out, '\n')
				i += 2
			case 'r':
				out = append(out, '\r')
				i += 2
			case 't':
				out = append(out, '\t')
				i += 2
			case 'u':
				if i+5 >= len(in) {
					return nil, 0, false
				}
				v := 0
				for k := 2; k < 6; k++ {
					h := in[i+k]
					switch {
					case h >= '0' && h <= '9':
						v = v*16 + int(h-'0')
					case h >= 'a' && h <= 'f':
						v = v*16 + int(h-'a') + 10
					case h >= 'A' && h <= 'F':
						v = v*16 + int(h-'A') + 10
					default:
						return nil, 0, false
					}
				}
				if v >= 0x80 {
					return nil, 0, false // the writer only emits \u00XX for control characters
				}
				out = append(out, byte(v))
				i += 6
			default:
				return nil, 0, false
			}
		default:
			out = append(out, c)
			i++
		}
	}
	return nil, 0, false
}

func c19Input(name string, maxlen int) string {
	return zz.String(name, zz.Len("len_"+name, maxlen))
}

// VerifC19String: the bytes writeJSONString emits are one well-formed JSON string that
// decodes to exactly the input.
func VerifC19String() {
	s := c19Input("s", zz.ParamInt("maxlen", 3))
	var buf bytes.Buffer
	w := bufio.NewWriter(&buf)
	writeJSONString(w, nil, s)
	w.Flush()
	out := buf.Bytes()
	dec, n, ok := c19Decode(out)
	zz.Assert(ok, "output is not a well-formed JSON string")
	if ok {
		zz.Assert(n == len(out), "output has trailing bytes after the JSON string")
		zz.Assert(zz.EqBytes(dec, []byte(s)), "JSON string does not decode to the original value")
	}
	zz.Reach("end")
}

// VerifC19Array: writeJSONStringArray emits a well-formed array of those strings.
func VerifC19Array() {
	k := zz.ParamInt("items", 2)
	ss := make([]string, k)
	for i := range ss {
		ss[i] = c19Input("s", zz.ParamInt("maxlen", 2))
	}
	var buf bytes.Buffer
	w := bufio.NewWriter(&buf)
	writeJSONStringArray(w, ss)
	w.Flush()
	out := buf.Bytes()
	zz.Assert(len(out) >= 2 && out[0] == '[' && out[len(out)-1] == ']', "array brackets missing")
	pos := 1
	for i := 0; i < k; i++ {
		if i > 0 {
			zz.Assert(pos < len(out) && out[pos] == ',', "missing comma between array items")
			pos++
		}
		if pos >= len(out) {
			zz.Assert(false, "array ends early")
			return
		}
		dec, n, ok := c19Decode(out[pos:])
		zz.Assert(ok, "array item is not a well-formed JSON string")
		if !ok {
			return
		}
		zz.Assert(zz.EqBytes(dec, []byte(ss[i])), "array item does not decode to the original value")
		pos += n
	}
	zz.Assert(pos == len(out)-1, "unexpected bytes before the closing bracket")
	zz.Reach("end")
}
