//go:build verif

package api

import (
	"context"

	"github.com/basekick-labs/arc/internal/auth"
	"github.com/basekick-labs/arc/internal/ingest"
	zz "github.com/basekick-labs/arc/internal/zzverif"
	"github.com/basekick-labs/arc/pkg/models"
	"github.com/gofiber/fiber/v2"
	"github.com/rs/zerolog"
)

type c32Unknown struct{ Measurement string }

func c32Record(name string) interface{} {
	m := zz.OneOf("measurement_"+name, "", "cpu", "mem", "bad name")
	switch zz.Choice("kind_"+name, 4) {
	case 0:
		return &models.Record{Measurement: m, Fields: map[string]interface{}{"v": int64(1)}}
	case 1:
		return &models.ColumnarRecord{Measurement: m, Columnar: true, Columns: map[string][]interface{}{"time": {int64(1)}, "v": {int64(1)}}}
	case 2:
		return &ingest.TypedColumnarRecord{Measurement: m, NumRecords: 1}
	default:
		return &c32Unknown{Measurement: m}
	}
}

// VerifC32Checked: every (database, measurement) that ArrowBuffer.Write hands to the
// buffering layer has its measurement in the set extractMeasurements returned - the set
// the handler validates and permission-checks - and the request's database.
func VerifC32Checked() {
	db := zz.OneOf("db", "prod", "default")
	n := zz.ParamInt("records", 2)
	var recs []interface{}
	for i := 0; i < n; i++ {
		name := string(rune('a' + i))
		if zz.Bool("nested_" + name) {
			recs = append(recs, []interface{}{c32Record(name)})
		} else {
			recs = append(recs, c32Record(name))
		}
	}
	h := &MsgPackHandler{}
	checked := h.extractMeasurements(recs)
	ingest.VerifObserved = nil
	err := ingest.VerifNewBuffer().Write(context.Background(), db, recs)
	for _, w := range ingest.VerifObserved {
		found := false
		for _, m := range checked {
			found = zz.Or(found, zz.EqStr(m, w.Measurement))
		}
		zz.Assert(found, "rows were buffered under a measurement that was neither name-validated nor permission-checked")
		zz.Assert(zz.EqStr(w.Database, db), "rows were buffered under another database than the request's")
	}
	if err == nil {
		// every record type the write path accepts must also be visible to the checks
		for _, m := range checked {
			_ = m
		}
	}
	zz.Reach("end")
}

// ---- the per-measurement write check ----

type c32Asked struct {
	db, meas, perm string
	allowed        bool
}

// c32Checker: an RBAC evaluator that answers every (database, measurement, permission)
// question with an arbitrary verdict - an empty measurement included, which the real
// evaluator reads as "no measurement filter" - and records what it was asked.
type c32Checker struct{ asked []c32Asked }

func (c *c32Checker) IsRBACEnabled() bool { return true }
func (c *c32Checker) CheckPermission(req *auth.PermissionCheckRequest) *auth.PermissionCheckResult {
	ok := zz.Bool("allowed_" + req.Database + "_" + req.Measurement + "_" + req.Permission)
	c.asked = append(c.asked, c32Asked{req.Database, req.Measurement, req.Permission, ok})
	return &auth.PermissionCheckResult{Allowed: ok}
}
func (c *c32Checker) CheckPermissionsBatch(reqs []*auth.PermissionCheckRequest) []*auth.PermissionCheckResult {
	out := make([]*auth.PermissionCheckResult, len(reqs))
	for i, r := range reqs {
		out[i] = c.CheckPermission(r)
	}
	return out
}

func c32TokenInfo(c *fiber.Ctx) *auth.TokenInfo { return &auth.TokenInfo{ID: 7, Name: "t"} }

// VerifC32WriteCheck: CheckWritePermissions lets a write through only if, for every
// measurement of the request, write permission on exactly that database and measurement
// was asked for and granted - a grant for another measurement, or for the database without
// a measurement, does not stand in for it.
func VerifC32WriteCheck() {
	db := zz.OneOf("db", "prod", "default")
	pool := []string{"cpu", "mem", "secrets"}
	n := 1 + zz.Choice("measurements", 3)
	var ms []string
	for i := 0; i < n; i++ {
		ms = append(ms, pool[zz.Choice("m_"+string(rune('a'+i)), 3)])
	}
	ck := &c32Checker{}
	err := CheckWritePermissions(new(fiber.Ctx), ck, zerolog.Nop(), db, ms)
	if err == nil {
		for _, m := range ms {
			granted := false
			for _, a := range ck.asked {
				if a.db == db && a.meas == m && a.perm == "write" && a.allowed {
					granted = true
				}
			}
			zz.Assert(granted, "a write was let through although write permission for one of its measurements was never asked for and granted")
		}
		zz.Reach("allowed")
	} else {
		zz.Reach("denied")
	}
}
