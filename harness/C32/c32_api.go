//go:build verif

package api

import (
	"context"

	"github.com/basekick-labs/arc/internal/ingest"
	zz "github.com/basekick-labs/arc/internal/zzverif"
	"github.com/basekick-labs/arc/pkg/models"
)

type c32Unknown struct{ Measurement string }

func c32Record(name string) interface{} {
	m := zz.OneOf("measurement_"+name, "", "cpu", "mem", "bad name")
	switch zz.Choice("kind_"+name, 4) {
	case 0:
		return &models.Record{Measurement: m, Fields: map[string]interface{}{"v": int64(1)}}
	case 1:
		return &models.ColumnarRecord{Measurement: m, Columnar: true, Columns: map[string][]interface{}{"time": {int64(1)}, "v": {int64(1)}}}
	case 2:
		return &ingest.TypedColumnarRecord{Measurement: m, NumRecords: 1}
	default:
		return &c32Unknown{Measurement: m}
	}
}

// VerifC32Checked: every (database, measurement) that ArrowBuffer.Write hands to the
// buffering layer has its measurement in the set extractMeasurements returned - the set
// the handler validates and permission-checks - and the request's database.
func VerifC32Checked() {
	db := zz.OneOf("db", "prod", "default")
	n := zz.ParamInt("records", 2)
	var recs []interface{}
	for i := 0; i < n; i++ {
		name := string(rune('a' + i))
		if zz.Bool("nested_" + name) {
			recs = append(recs, []interface{}{c32Record(name)})
		} else {
			recs = append(recs, c32Record(name))
		}
	}
	h := &MsgPackHandler{}
	checked := h.extractMeasurements(recs)
	ingest.VerifObserved = nil
	err := ingest.VerifNewBuffer().Write(context.Background(), db, recs)
	for _, w := range ingest.VerifObserved {
		found := false
		for _, m := range checked {
			found = zz.Or(found, zz.EqStr(m, w.Measurement))
		}
		zz.Assert(found, "rows were buffered under a measurement that was neither name-validated nor permission-checked")
		zz.Assert(zz.EqStr(w.Database, db), "rows were buffered under another database than the request's")
	}
	if err == nil {
		// every record type the write path accepts must also be visible to the checks
		for _, m := range checked {
			_ = m
		}
	}
	zz.Reach("end")
}
