//go:build verif

package wal

// VerifWriterWithHook: a Writer whose entries go to an in-memory channel, with the
// replication hook installed (what SetReplicationHook does on the primary writer).
func VerifWriterWithHook(h ReplicationHook) *Writer {
	return &Writer{entryChan: make(chan walEntry, 8), replicationHook: h}
}
