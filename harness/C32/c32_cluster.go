//go:build verif

package cluster

import (
	"context"

	"github.com/Basekick-Labs/msgpack/v6"
	"github.com/basekick-labs/arc/internal/ingest"
	"github.com/basekick-labs/arc/internal/wal"
	zz "github.com/basekick-labs/arc/internal/zzverif"
	"github.com/basekick-labs/arc/pkg/models"
)

// VerifC32Replicated: a write accepted on the writer for (db, measurement) is handed to
// the WAL (row-format records for line protocol / converted rows, raw columnar payload in
// an envelope for msgpack); the replication hook ships that payload; the reader's ingest
// handler must buffer the same rows under the same database and measurement.
var c32ColNames = []string{"host", "database", "_database", "measurement", "_measurement", "m"}

func VerifC32Replicated() {
	zz.ClockFixed(1700000000000000000)
	db := zz.OneOf("db", "prod", "default", "tenant2")
	meas := zz.OneOf("measurement", "cpu", "mem")
	var shipped [][]byte
	w := wal.VerifWriterWithHook(func(e *wal.ReplicationEntry) { shipped = append(shipped, e.Payload) })
	val := zz.OneOf("value", "a", "b", "mem")
	// the payload's own column may carry a routing-like name (tag/field/column called
	// database, _database, measurement, _measurement, m)
	col := c32ColNames[zz.Choice("column", len(c32ColNames))]
	rowFormat := zz.Bool("row_format")
	if rowFormat {
		// line protocol / converted row records: writeColumnarInternal appends
		// columnarToWALRecords(database, record)
		rec := &models.ColumnarRecord{Measurement: meas, Columnar: true, Columns: map[string][]interface{}{"time": {int64(1700000000000000)}, col: {val}}}
		zz.Assert(w.Append(ingest.VerifToWALRecords(db, rec)) == nil, "WAL append failed")
	} else {
		// msgpack columnar: the client's bytes, enveloped with the request's database
		raw, err := msgpack.Marshal(map[string]interface{}{"m": meas, "columns": map[string]interface{}{"time": []interface{}{int64(1700000000000000)}, col: []interface{}{val}}})
		zz.Assert(err == nil, "marshal failed")
		zz.Assert(w.AppendRawWithMeta(db, raw) == nil, "WAL append failed")
	}
	zz.Assert(len(shipped) == 1, "the write was not handed to replication exactly once")
	if len(shipped) != 1 {
		return
	}
	// reader
	c := &Coordinator{ingestBuffer: ingest.VerifNewBuffer()}
	ingest.VerifObserved = nil
	err := c.buildReplicationIngestHandler().ApplyReplicatedEntry(context.Background(), shipped[0])
	zz.Assert(err == nil, "the reader failed to apply a replicated write")
	zz.Assert(len(ingest.VerifObserved) == 1, "a replicated write was not buffered exactly once on the reader")
	if len(ingest.VerifObserved) == 1 {
		got := ingest.VerifObserved[0]
		zz.Assert(zz.EqStr(got.Database, db), "a replicated write landed under another database on the reader")
		zz.Assert(zz.EqStr(got.Measurement, meas), "a replicated write landed under another measurement on the reader")
		// the row-format WAL record is a flat map: a user column itself called _database or
		// _measurement cannot coexist with the routing keys (listed under C05)
		if !(rowFormat && (col == "_database" || col == "_measurement")) {
			h, ok := got.Columns[col]
			zz.Assert(ok && len(h) == 1 && h[0] == interface{}(val) && len(got.Columns) == 2, "a replicated write lost or changed a column on the reader")
		}
		zz.Assert(got.SkipWAL, "the reader wrote a replicated entry to its own WAL a second time")
	}
	zz.Reach("end")
}
