//go:build verif

package ingest

import (
	"context"

	"github.com/basekick-labs/arc/pkg/models"
)

// VerifObsColumnar / VerifObsTyped replace (*ArrowBuffer).writeColumnar and
// writeTypedColumnarRaw under the engine: they record what Write hands to the buffering
// layer.
func VerifObsColumnar(b *ArrowBuffer, ctx context.Context, database string, record *models.ColumnarRecord) error {
	VerifObserved = append(VerifObserved, VerifBuffered{Database: database, Measurement: record.Measurement, Columns: record.Columns})
	return nil
}

func VerifObsTyped(b *ArrowBuffer, ctx context.Context, database, measurement string, batch *TypedColumnBatch, numRecords int, rawPayload []byte, skipWAL bool) error {
	VerifObserved = append(VerifObserved, VerifBuffered{Database: database, Measurement: measurement})
	return nil
}
