//go:build verif

package api

import (
	"context"
	"errors"
	"time"

	"github.com/basekick-labs/arc/internal/cluster/raft"
	zz "github.com/basekick-labs/arc/internal/zzverif"
	"github.com/rs/zerolog"
)

// what the per-file MAX(time)/COUNT(*) probe returns for each stored file
type c11Meta struct {
	maxTime time.Time
	rows    int64
	fail    bool
}

var c11Probe map[string]c11Meta
var c11Probed []string

// c11GetMeta replaces (*RetentionHandler).getFileMaxTimeAndRowCount (DuckDB over Parquet)
// under the engine: it returns the solver-chosen probe result of the file.
func c11GetMeta(h *RetentionHandler, ctx context.Context, filePath string) (time.Time, int64, error) {
	c11Probed = append(c11Probed, filePath)
	m, ok := c11Probe[filePath]
	if !ok || m.fail {
		return time.Time{}, 0, errors.New("probe failed")
	}
	return m.maxTime, m.rows, nil
}

// cluster coordinator stand-in: records the manifest ops, may fail
type c11Coord struct {
	ops  []string
	fail bool
}

func (c *c11Coord) BatchFileOpsInManifest(ops []raft.BatchFileOp) error {
	if c.fail {
		return errors.New("no quorum")
	}
	for _, op := range ops {
		zz.Assert(op.Type == raft.CommandDeleteFile, "retention sent a manifest op that is not a delete")
		c.ops = append(c.ops, "x")
	}
	return nil
}
func (c *c11Coord) IsPrimaryWriter() bool { return true }
func (c *c11Coord) Role() string           { return "writer" }

var c11Files = []string{
	"db/cpu/2024/01/01/00/a.parquet",
	"db/cpu/2024/01/01/01/b.PARQUET",
	"db/cpu/2024/01/02/c.parquet",
	"db/cpu/2024/01/01/00/notes.txt",
	"db/cpu2/2024/01/01/00/d.parquet", // another measurement sharing the name prefix
}

func c11Setup(tag string) (*zz.FakeBackend, []string) {
	fb := zz.NewFakeBackend()
	var present []string
	for i, p := range c11Files {
		if i >= zz.ParamInt("files", 5) {
			break
		}
		if zz.Bool("has_" + string(rune('a'+i))) {
			fb.Files[p] = []byte("x")
			present = append(present, p)
		}
	}
	return fb, present
}

// VerifC11Delete: one deleteOldFiles call over every layout of the file pool, every probe
// outcome per file, with and without a cluster coordinator, storage delete faults enabled.
func VerifC11Delete() {
	cutoff := zz.Time("cutoff")
	fb, present := c11Setup("")
	c11Probe = map[string]c11Meta{}
	c11Probed = nil
	for i, p := range present {
		s := string(rune('a' + i))
		c11Probe[p] = c11Meta{maxTime: zz.Time("max_" + s), rows: zz.OneOfInt64("rows_"+s, 1, 10), fail: zz.Bool("probe_fails_" + s)}
	}
	dry := zz.Bool("dry_run")
	h := &RetentionHandler{storage: fb, logger: zerolog.Nop()}
	var coord *c11Coord
	if zz.Bool("clustered") {
		coord = &c11Coord{fail: zz.Bool("manifest_fails")}
		h.coordinator = coord
	}
	fb.Faults = zz.Bool("storage_faults")
	fb.NoFault["list"] = !zz.Bool("list_may_fail")
	rows, files, err := h.deleteOldFiles(context.Background(), "db", "cpu", cutoff, dry, "retention:1")

	// (1) nothing at or after the cutoff, nothing unprobed, nothing outside the measurement
	wantFiles, wantRows := 0, int64(0)
	gone := 0
	for _, p := range present {
		_, still := fb.Files[p]
		m := c11Probe[p]
		isParquet := len(p) >= 8 && (p[len(p)-8:] == ".parquet" || p[len(p)-8:] == ".PARQUET")
		inMeasurement := len(p) >= 7 && p[:7] == "db/cpu/"
		eligible := inMeasurement && isParquet && !m.fail && m.maxTime.Before(cutoff)
		if !still {
			gone++
			zz.Assert(inMeasurement, "retention deleted a file of another measurement")
			zz.Assert(isParquet, "retention deleted a non-parquet file")
			zz.Assert(!m.fail, "retention deleted a file whose max(time) could not be read")
			zz.Assert(m.maxTime.Before(cutoff), "retention deleted a file holding a row at or after the cutoff")
			zz.Assert(!dry, "a dry run deleted a file")
		}
		if eligible {
			wantFiles++
			wantRows += m.rows
			if !dry && err == nil && !fb.Faults {
				zz.Assert(!still, "a file consisting only of rows older than the cutoff survived a successful run")
			}
		}
	}
	// (2) reported counts
	if dry {
		zz.Assert(err != nil || (files == wantFiles && rows == wantRows), "dry run does not report what a real run would delete")
		zz.Assert(coord == nil || len(coord.ops) == 0, "a dry run updated the cluster manifest")
	} else {
		zz.Assert(files == gone, "reported number of deleted files differs from the files actually deleted")
		if err == nil && !fb.Faults {
			zz.Assert(files == wantFiles && rows == wantRows, "reported counts differ from the eligible files")
		}
		// (3) manifest before storage: every deleted file was first removed from the manifest
		if coord != nil {
			zz.Assert(gone <= len(coord.ops), "a file was deleted from storage without its manifest delete being committed")
			if coord.fail {
				zz.Assert(gone == 0, "files deleted although the manifest update failed")
				zz.Assert(wantFiles == 0 || err != nil, "manifest update failed but the run reported success")
			}
		}
	}
	zz.Reach("end")
}

// ---- ExecutePolicy: cutoff arithmetic and one cutoff per run ----

var c11Policy *RetentionPolicy
var c11Cutoffs []time.Time

func c11GetPolicy(h *RetentionHandler, policyID int64) (*RetentionPolicy, error) { return c11Policy, nil }

// c11DeleteObs replaces deleteOldFiles for the ExecutePolicy run: records the cutoff.
func c11DeleteObs(h *RetentionHandler, ctx context.Context, database, measurement string, cutoffDate time.Time, dryRun bool, reason string) (int64, int, error) {
	c11Cutoffs = append(c11Cutoffs, cutoffDate)
	zz.Assert(!dryRun, "scheduled execution ran as a dry run")
	zz.Assert(database == c11Policy.Database, "retention ran against another database than the policy's")
	return 1, 1, nil
}

func VerifC11Policy() {
	zz.ClockMonotone()
	days := int(zz.OneOfInt64("retention_days", 0, 1, 30, 365, 106751, 106752, 3650000))
	buf := int(zz.OneOfInt64("buffer_days", 0, 1, 7))
	var meas *string
	if zz.Bool("has_measurement_filter") {
		m := "cpu"
		meas = &m
	}
	c11Policy = &RetentionPolicy{ID: 1, Name: "p", Database: "db", Measurement: meas, RetentionDays: days, BufferDays: buf, IsActive: true}
	c11Cutoffs = nil
	fb := zz.NewFakeBackend()
	fb.Files["db/cpu/2024/01/01/00/a.parquet"] = []byte("x")
	fb.Files["db/mem/2024/01/01/00/b.parquet"] = []byte("x")
	fb.Files["db/.tmp/x"] = []byte("x")
	h := &RetentionHandler{storage: fb, logger: zerolog.Nop()}
	resp, err := h.ExecutePolicy(context.Background(), 1)
	zz.Assert(err == nil && resp != nil, "ExecutePolicy failed without any fault")
	first := zz.FirstNow()
	last := zz.LastNow()
	if meas != nil {
		zz.Assert(len(c11Cutoffs) == 1, "measurement filter not honoured")
	} else {
		zz.Assert(len(c11Cutoffs) == 2, "not every measurement of the database was processed (or a dot-directory was)")
	}
	for _, c := range c11Cutoffs {
		zz.Assert(c.Equal(c11Cutoffs[0]), "measurements of one run were processed with different cutoffs")
		// the cutoff is (now - (retention+buffer) days) for a clock reading taken during the run
		// (stated in calendar days on the UTC time line, so retention periods beyond the
		// ~292 years a time.Duration can hold are covered too)
		back := c.AddDate(0, 0, days+buf)
		zz.Assert(!back.Before(first) && !back.After(last), "cutoff is not now - (retention_days + buffer_days)")
	}
	zz.Reach("end")
}
