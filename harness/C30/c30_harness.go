//go:build verif

package api

import (
	"context"
	"errors"
	"net"
	"net/http"
	"time"

	"github.com/basekick-labs/arc/internal/cluster"
	zz "github.com/basekick-labs/arc/internal/zzverif"
	"github.com/gofiber/fiber/v2"
	"github.com/valyala/fasthttp"
)

var c30Target string // node id a request was forwarded to ("" = not forwarded)

// c30Forward replaces (*cluster.Router).forwardRequest under the engine (the network
// round trip is outside the encoding): it records the chosen target.
func c30Forward(r *cluster.Router, ctx context.Context, node *cluster.Node, req *http.Request) (*http.Response, error) {
	c30Target = node.ID
	return nil, errors.New("forwarded")
}

func c30Role(name string) cluster.NodeRole {
	return cluster.NodeRole(zz.OneOf(name, "writer", "reader", "compactor", "standalone", "bogus"))
}

func c30Node(id string) *cluster.Node {
	n := &cluster.Node{ID: id, Name: id, APIAddress: id + ":80"}
	n.Role = c30Role("role_" + id)
	n.State = cluster.NodeState(zz.OneOf("state_"+id, "healthy", "unhealthy", "unknown", "joining", "dead"))
	n.WriterSt = cluster.WriterState(zz.OneOf("wstate_"+id, "", "primary", "standby"))
	return n
}

// c30Ctx builds a Fiber context carrying the given X-Arc-Forwarded-By value. Under the
// engine it is stubbed (nil ctx) and (*fiber.Ctx).Get returns the registered value.
func c30Ctx(marker string) *fiber.Ctx {
	app := fiber.New()
	fctx := &fasthttp.RequestCtx{}
	if marker != "" {
		fctx.Request.Header.Set(ForwardedByHeader, marker)
	}
	return app.AcquireCtx(fctx)
}

func c30Router(local *cluster.Node, others []*cluster.Node) *cluster.Router {
	reg := cluster.NewRegistry(&cluster.RegistryConfig{LocalNode: local})
	for _, n := range others {
		reg.Register(n)
	}
	cfg := &cluster.RouterConfig{Registry: reg, LocalNode: local, Retries: 1, Timeout: time.Second}
	if zz.Bool("least_conn") {
		cfg.Strategy = cluster.LoadBalanceLeastConnections
	}
	if !zz.Symbolic() {
		// native replay: record the dialled address instead of doing network I/O
		cfg.Transport = &http.Transport{DialContext: func(ctx context.Context, network, addr string) (net.Conn, error) {
			host, _, _ := net.SplitHostPort(addr)
			c30Target = host
			return nil, errors.New("verif: no network")
		}}
	}
	return cluster.NewRouter(cfg)
}

func c30CanServe(role cluster.NodeRole, isWrite bool) bool {
	caps := role.GetCapabilities()
	if isWrite {
		return caps.CanIngest
	}
	return caps.CanQuery
}

// VerifC30Decide: the three-way decision on the receiving node.
func VerifC30Decide() {
	isWrite := zz.Bool("isWrite")
	marker := zz.OneOf("marker", "", "n9", "spoofed")
	zz.FiberHeader(ForwardedByHeader, marker)
	c := c30Ctx(marker)
	// no router: always local
	zz.Assert(decideForward(nil, c, isWrite) == ForwardLocal, "no router but not processed locally")
	local := c30Node("L")
	hasLocal := zz.Bool("has_local_node")
	var ln *cluster.Node
	if hasLocal {
		ln = local
	}
	r := c30Router(ln, nil)
	d := decideForward(r, c, isWrite)
	capable := zz.And(hasLocal, c30CanServe(local.Role, isWrite))
	zz.Assert(zz.Implies(capable, d == ForwardLocal), "capable node does not serve the request itself")
	zz.Assert(zz.Implies(!capable, d != ForwardLocal), "node whose role cannot serve the request processes it locally")
	zz.Assert(zz.Implies(!zz.EqStr(marker, ""), d != ForwardToPeer), "already-forwarded request forwarded again")
	zz.Assert(zz.Implies(zz.And(!capable, zz.EqStr(marker, "")), d == ForwardToPeer), "unmarked request on a non-capable node not forwarded")
	if isWrite {
		zz.Assert(WriteForwardDecision(r, c) == d, "WriteForwardDecision differs from decideForward")
		zz.Assert(ShouldForwardWrite(r, c) == (d == ForwardToPeer), "ShouldForwardWrite inconsistent")
	} else {
		zz.Assert(QueryForwardDecision(r, c) == d, "QueryForwardDecision differs from decideForward")
		zz.Assert(ShouldForwardQuery(r, c) == (d == ForwardToPeer), "ShouldForwardQuery inconsistent")
	}
	// the loop marker is stripped from client requests at the forward boundary
	zz.Assert(isClientForwardingHeader(http.CanonicalHeaderKey(ForwardedByHeader)), "client-supplied forwarded-by marker is not stripped")
	zz.Reach("end")
}

// VerifC30Route: when the receiving node forwards, the target can serve the request and
// is healthy; on that target the (now marked) request is served locally: one hop.
func VerifC30Route() {
	isWrite := zz.Bool("isWrite")
	k := zz.ParamInt("peers", 2)
	local := c30Node("L")
	peers := make([]*cluster.Node, k)
	ids := []string{"n0", "n1", "n2"}
	for i := range peers {
		peers[i] = c30Node(ids[i])
	}
	r := c30Router(local, peers)
	var req *http.Request
	if !zz.Symbolic() {
		req, _ = http.NewRequest("POST", "http://in/api/v1/write", nil)
	}
	c30Target = ""
	var err error
	if isWrite {
		_, err = r.RouteWrite(context.Background(), req)
	} else {
		_, err = r.RouteQuery(context.Background(), req)
	}
	if err == cluster.ErrLocalNodeCanHandle {
		zz.Assert(c30CanServe(local.Role, isWrite), "router says local node can handle a request its role cannot serve")
		zz.Assert(zz.EqStr(c30Target, ""), "request both forwarded and handed back to the local node")
		zz.Reach("local")
		return
	}
	if c30Target == "" {
		zz.Assert(err != nil, "request neither served locally nor forwarded, yet no error")
		zz.Reach("no-target")
		return
	}
	var tgt *cluster.Node
	if c30Target == "L" {
		tgt = local
	}
	for _, p := range peers {
		if p.ID == c30Target {
			tgt = p
		}
	}
	zz.Assert(tgt != nil, "forwarded to an unknown node")
	if tgt == nil {
		return
	}
	zz.Assert(c30CanServe(tgt.Role, isWrite), "request forwarded to a node whose role cannot serve it")
	zz.Assert(zz.EqStr(string(tgt.State), "healthy"), "request forwarded to a node that is not healthy")
	// second hop: the target receives the request with the marker set by doForward
	zz.FiberHeader(ForwardedByHeader, "L")
	d2 := decideForward(c30Router(tgt, nil), c30Ctx("L"), isWrite)
	zz.Assert(d2 == ForwardLocal, "forwarded request is not served by the node it was forwarded to")
	zz.Reach("forwarded")
}
