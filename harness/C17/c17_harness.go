//go:build verif

package api

import (
	"regexp"
	"strconv"
	"strings"

	zz "github.com/basekick-labs/arc/internal/zzverif"
)

// ---- the regular expressions are not interpreted: the harness hands the rewrite callback
// the submatches a matching call has (the call is the whole match) ----

var (
	c17Calls  int      // ReplaceAllStringFunc calls so far in this rewrite
	c17Target int      // which of them sees the call (time_bucket: 1 = 3-argument form, 2 = 2-argument form)
	c17Match  string   // the matched call text
	c17Parts  []string // its submatches
)

func c17ReplaceAllStringFunc(re *regexp.Regexp, src string, repl func(string) string) string {
	c17Calls++
	if c17Calls != c17Target {
		return src
	}
	i := strings.Index(src, c17Match)
	if i < 0 {
		zz.OutOfModel("match text not in the statement")
	}
	return src[:i] + repl(c17Match) + src[i+len(c17Match):]
}
func c17FindStringSubmatch(re *regexp.Regexp, s string) []string { return c17Parts }

func c17FloorDiv(a, b int64) int64 {
	q := a / b
	if a%b != 0 && a < 0 {
		q--
	}
	return q
}

const c17DuckOrigin = int64(946857600) // 2000-01-03 00:00:00 UTC, a Monday: time_bucket's default origin for widths without months

// c17Eval: the value DuckDB computes for the rewritten expression at the instant tsUS
// (microseconds). Only the two shapes the rewrites emit are interpreted:
//
//	to_timestamp((epoch(time)::BIGINT // S) * S)
//	to_timestamp(O + ((epoch(time)::BIGINT - O) // S) * S)
//
// with DuckDB's semantics of the operators involved (each confirmed against the real
// DuckDB by findings/C17_time_bucket_demo_test.go): epoch() is seconds as DOUBLE, the cast
// to BIGINT rounds to nearest, // on BIGINT truncates toward zero.
func c17Eval(expr string, tsUS int64) int64 {
	sec := c17FloorDiv(tsUS, 1000000)
	frac := tsUS - sec*1000000
	zz.Assume(frac != 500000) // ties of the rounding cast are left out
	r := sec
	if frac > 500000 {
		r = sec + 1
	}
	const p2 = "to_timestamp((epoch(time)::BIGINT // "
	const p3 = "to_timestamp("
	switch {
	case strings.HasPrefix(expr, p2):
		rest := expr[len(p2):] // S) * S)
		i := strings.Index(rest, ") * ")
		if i < 0 || !strings.HasSuffix(rest, ")") {
			zz.OutOfModel("rewritten expression " + expr)
		}
		s1, e1 := strconv.Atoi(rest[:i])
		s2, e2 := strconv.Atoi(rest[i+4 : len(rest)-1])
		if e1 != nil || e2 != nil || s1 <= 0 {
			zz.OutOfModel("rewritten expression " + expr)
		}
		return (r / int64(s1)) * int64(s2) * 1000000
	case strings.HasPrefix(expr, p3) && strings.Contains(expr, " + ((epoch(time)::BIGINT - "):
		rest := expr[len(p3):]
		i := strings.Index(rest, " + ((epoch(time)::BIGINT - ")
		o1, e1 := strconv.Atoi(rest[:i])
		rest = rest[i+len(" + ((epoch(time)::BIGINT - "):]
		j := strings.Index(rest, ") // ")
		if j < 0 {
			zz.OutOfModel("rewritten expression " + expr)
		}
		o2, e2 := strconv.Atoi(rest[:j])
		rest = rest[j+5:]
		k := strings.Index(rest, ") * ")
		if k < 0 || !strings.HasSuffix(rest, ")") {
			zz.OutOfModel("rewritten expression " + expr)
		}
		s1, e3 := strconv.Atoi(rest[:k])
		s2, e4 := strconv.Atoi(rest[k+4 : len(rest)-1])
		if e1 != nil || e2 != nil || e3 != nil || e4 != nil || s1 <= 0 {
			zz.OutOfModel("rewritten expression " + expr)
		}
		return (int64(o1) + ((r-int64(o2))/int64(s1))*int64(s2)) * 1000000
	}
	zz.OutOfModel("rewritten expression " + expr)
	return 0
}

var c17UnitSeconds = map[string]int64{"second": 1, "minute": 60, "hour": 3600, "day": 86400, "week": 604800}

// VerifC17Bucket: a time_bucket (2- and 3-argument) or date_trunc call over the column
// `time` goes through the real rewriteTimeBucket / rewriteDateTrunc (callbacks,
// intervalToSeconds, parseTimeBucketOrigin, the emitted text). For every instant (any
// microsecond timestamp within +-2^53 us of 1970) the rewritten expression must denote the
// bucket DuckDB's original function returns: origin + floor((t - origin) / width) * width,
// with time_bucket's default origin 2000-01-03 (a Monday) and date_trunc('week') on
// Mondays; month widths must be left to DuckDB.
func VerifC17Bucket() {
	form := zz.Choice("form", 3) // 0: time_bucket(w, t)  1: time_bucket(w, t, origin)  2: date_trunc(unit, t)
	amount := []string{"1", "2", "5", "7", "15", "90", "010", "030"}[zz.Choice("amount", 8)] // the last two: leading zeros (DuckDB reads them as decimal)
	unitText := []string{"second", "seconds", "minute", "minutes", "hour", "hours", "day", "days", "week", "weeks", "month", "months"}[zz.Choice("unit", 12)]
	unit := strings.TrimSuffix(unitText, "s")
	ts := zz.Int64("timestamp_us")
	zz.Assume(ts > -(int64(1)<<53) && ts < int64(1)<<53)

	var sql, out string
	origin := c17DuckOrigin
	c17Calls = 0
	switch form {
	case 0:
		c17Match = "time_bucket(INTERVAL '" + amount + " " + unitText + "', time)"
		c17Parts = []string{c17Match, amount, unitText, "time"}
		c17Target = 2
		sql = "SELECT " + c17Match + " AS b FROM cpu"
		out = rewriteTimeBucket(sql)
	case 1:
		oi := zz.Choice("origin", 3)
		otext := []string{"2024-01-01 00:30:00", "2000-01-03 00:00:00", "1970-01-01"}[oi]
		origin = []int64{1704069000, 946857600, 0}[oi]
		c17Match = "time_bucket(INTERVAL '" + amount + " " + unitText + "', time, TIMESTAMP '" + otext + "')"
		c17Parts = []string{c17Match, amount, unitText, "time", otext}
		c17Target = 1
		sql = "SELECT " + c17Match + " AS b FROM cpu"
		out = rewriteTimeBucket(sql)
	default:
		zz.Assume(amount == "1" && unitText == unit)
		c17Match = "date_trunc('" + unit + "', time)"
		c17Parts = []string{c17Match, unit, "time"}
		c17Target = 1
		sql = "SELECT " + c17Match + " AS b FROM cpu"
		out = rewriteDateTrunc(sql)
	}
	if unit == "month" {
		zz.Assert(out == sql, "a month-based bucket was rewritten to fixed-length arithmetic")
		zz.Reach("month-left-alone")
		return
	}
	if out == sql {
		zz.Reach("not-rewritten")
		return
	}
	n, _ := strconv.Atoi(amount)
	width := int64(n) * c17UnitSeconds[unit]
	expr, ok := c10Between(out, "SELECT ", " AS b FROM cpu")
	zz.Assert(ok, "the rewrite changed text outside the call")
	got := c17Eval(expr, ts)
	want := (origin + c17FloorDiv(ts-origin*1000000, width*1000000)*width) * 1000000

	sec := c17FloorDiv(ts, 1000000)
	frac := ts - sec*1000000
	// listed findings (each shown against the real DuckDB in findings/C17_time_bucket_demo_test.go)
	zz.Known("C17-cast-rounds-subsecond-timestamps-up", zz.Symbolic() && frac > 500000)
	zz.Known("C17-integer-division-truncates-before-the-origin", zz.Symbolic() && ((form != 1 && ts < 0) || (form == 1 && ts < origin*1000000)))
	zz.Known("C17-epoch-aligned-buckets-ignore-duckdb-origin", zz.Symbolic() && form != 1 && c17DuckOrigin%width != 0)
	zz.Assert(got == want, "the rewritten expression denotes another bucket than DuckDB's function for this instant")
	zz.ClearKnown()
	zz.Reach("rewritten")
}
