//go:build verif

package compaction

import (
	"context"
	dsql "database/sql"
	"io"
	"os"
	"path/filepath"
	"sort"
	"strings"
	"time"

	"github.com/basekick-labs/arc/internal/storage"
	zz "github.com/basekick-labs/arc/internal/zzverif"
	"github.com/rs/zerolog"
)

// ---------------- (1) batching ----------------

// VerifC09Split: the batches' Files concatenate to exactly c.Files (every file in exactly
// one batch, order kept), counters consistent, every batch compactable.
func VerifC09Split() {
	n := zz.Len("files", zz.ParamInt("max_files", 12))
	max := zz.Int("max_files_per_batch")
	zz.Assume(max >= -1 && max <= 520)
	files := make([]string, n)
	for i := range files {
		files[i] = "f" + string(rune('A'+i))
	}
	c := Candidate{Database: "db", Measurement: "m", PartitionPath: "db/m/2024/01/01/00", Files: files, FileCount: n, Tier: "hourly", SyncExempt: zz.Bool("sync_exempt")}
	bs := SplitCandidateIntoBatches(c, max)
	eff, _ := clampFilesPerBatch(max)
	pos := 0
	for i, b := range bs {
		zz.Assert(b.BatchNumber == i+1 && b.TotalBatches == len(bs), "batch numbering inconsistent")
		zz.Assert(b.FileCount == len(b.Files) || (len(bs) == 1 && b.FileCount == n), "FileCount differs from the files of the batch")
		zz.Assert(b.Database == c.Database && b.Measurement == c.Measurement && b.PartitionPath == c.PartitionPath && b.Tier == c.Tier && b.SyncExempt == c.SyncExempt, "batch lost a field of its candidate")
		for _, f := range b.Files {
			zz.Assert(pos < n && f == files[pos], "batches do not concatenate to the candidate's files (a file lost, duplicated or reordered)")
			pos++
		}
		if len(bs) > 1 {
			zz.Assert(len(b.Files) >= MinFilesPerBatch, "a batch is below the minimum compactable size")
			zz.Assert(len(b.Files) <= eff+MinFilesPerBatch-1, "a batch exceeds the configured size by more than the folded remainder")
		}
	}
	zz.Assert(pos == n, "some files are in no batch")
	// the copies do not alias the candidate's slice
	if n > 0 && len(bs) > 0 && len(bs[0].Files) > 0 {
		bs[0].Files[0] = "changed"
		zz.Assert(files[0] == "fA", "a batch aliases the candidate's file slice")
	}
	zz.Reach("end")
}

// ---------------- (2) job + recovery protocol on a storage model ----------------

// c09Store: FakeBackend + ObjectLister (recovery's size check) + an upload that can be torn.
type c09Store struct {
	*zz.FakeBackend
	tornUploads bool
}

func (s *c09Store) ListObjects(ctx context.Context, prefix string) ([]storage.ObjectInfo, error) {
	var keys []string
	for p := range s.Files {
		if strings.HasPrefix(p, prefix) {
			keys = append(keys, p)
		}
	}
	sort.Strings(keys)
	var out []storage.ObjectInfo
	for _, p := range keys {
		out = append(out, storage.ObjectInfo{Path: p, Size: int64(len(s.Files[p]))})
	}
	return out, nil
}

// WriteReader: as FakeBackend's, plus (object stores without atomic put) a crash that
// leaves a truncated object under the final key.
// c09Ctx: the job's context (RunSubprocessJob runs the job under signal.NotifyContext): a
// SIGTERM cancels it. In the harness the signal arrives right after the output upload.
type c09Ctx struct{ cancelled *bool }

func (c c09Ctx) Deadline() (time.Time, bool) { return time.Time{}, false }
func (c c09Ctx) Done() <-chan struct{}       { return nil }
func (c c09Ctx) Err() error {
	if *c.cancelled {
		return context.Canceled
	}
	return nil
}
func (c c09Ctx) Value(key interface{}) interface{} { return nil }

var c09TermAfterUpload bool
var c09Cancelled bool

func (s *c09Store) WriteReader(ctx context.Context, path string, r io.Reader, size int64) error {
	if c09TermAfterUpload && strings.HasSuffix(path, "_compacted.parquet") {
		defer func() { c09Cancelled = true }()
	}
	if s.tornUploads && s.Crashes && zz.Choice("crash-mid-upload", 2) == 1 {
		b, _ := io.ReadAll(r)
		if len(b) > 1 {
			s.Files[path] = b[:len(b)/2]
			panic(zz.CrashSignal{At: "mid-upload " + path})
		}
	}
	return s.FakeBackend.WriteReader(ctx, path, r, size)
}

// c09NoBatch hides DeleteBatch: a backend that is only a storage.Backend (plus ObjectLister),
// so that Job.deleteOldFiles takes its per-file loop instead of the batch call.
type c09NoBatch struct {
	storage.Backend
	inner *c09Store
}

func (s c09NoBatch) ListObjects(ctx context.Context, prefix string) ([]storage.ObjectInfo, error) {
	return s.inner.ListObjects(ctx, prefix)
}

func c09Inner(b storage.Backend) *c09Store {
	if nb, ok := b.(c09NoBatch); ok {
		return nb.inner
	}
	return b.(*c09Store)
}

var c09Inputs = []string{"db/m/2024/01/01/00/a.parquet", "db/m/2024/01/01/00/b.parquet", "db/m/2024/01/01/00/c.parquet"}

const c09Output = "OUTPUT-OF-ALL-INPUTS"

// c09Download replaces (*Job).downloadFiles: every input still in storage is "downloaded".
func c09Download(j *Job, ctx context.Context, tempDir string) ([]downloadedFile, error) {
	st := c09Inner(j.StorageBackend)
	var out []downloadedFile
	for _, k := range j.Files {
		if b, ok := st.Files[k]; ok {
			out = append(out, downloadedFile{storageKey: k, localPath: filepath.Join(tempDir, filepath.Base(k)), size: int64(len(b))})
			j.BytesBefore += int64(len(b))
		}
	}
	return out, nil
}

// c09Compact replaces (*Job).compactFiles (DuckDB): the output is one local file standing
// for the union of the rows of the given inputs; it may fail.
func c09Compact(j *Job, ctx context.Context, files []downloadedFile, tempDir string) (string, error) {
	if zz.Bool("compact_fails") {
		return "", os.ErrInvalid
	}
	j.compactedFiles = nil
	for _, f := range files {
		j.compactedFiles = append(j.compactedFiles, f.storageKey)
	}
	j.FilesCompacted = len(files)
	out := filepath.Join(tempDir, "m_compacted.parquet")
	if err := os.WriteFile(out, []byte(c09Output), 0600); err != nil {
		return "", err
	}
	return out, nil
}

func c09RunGuarded(f func() error) (err error, crashed bool) {
	defer func() {
		if r := recover(); r != nil {
			if _, ok := r.(zz.CrashSignal); ok {
				crashed = true
				return
			}
			panic(r)
		}
	}()
	return f(), false
}

// c09Check: no input is gone unless the complete output is in place; output and inputs
// are both visible only while a manifest lists those inputs (so the next cycle excludes
// them and finishes the deletion instead of compacting them again).
func c09Check(st *c09Store, mm *ManifestManager, n int, when string) {
	out, hasOut := st.Files["db/m/2024/01/01/00/m_compacted.parquet"]
	complete := hasOut && string(out) == c09Output
	missing, present := 0, 0
	for _, k := range c09Inputs[:n] {
		if _, ok := st.Files[k]; ok {
			present++
		} else {
			missing++
		}
	}
	zz.Assert(missing == 0 || complete, "an input file was removed although its rows are not in a complete output file ("+when+")")
	if hasOut && present > 0 {
		inMan, err := mm.GetFilesInManifests(context.Background())
		zz.Assert(err == nil, "manifest listing failed without faults")
		for _, k := range c09Inputs[:n] {
			if _, ok := st.Files[k]; ok {
				_, listed := inMan[k]
				zz.Assert(listed, "output and input are both visible and no manifest protects the input from being compacted again ("+when+")")
			}
		}
	}
}

// VerifC09Job: one Job.Run with a crash possible before every storage mutation (and in
// the middle of the upload), or with a failure injected at every storage call, then a
// fault-free RecoverOrphanedManifests pass.
func VerifC09Job() {
	zz.ClockMonotone()
	n := zz.ParamInt("inputs", 2)
	st := &c09Store{FakeBackend: zz.NewFakeBackend()}
	for _, k := range c09Inputs[:n] {
		st.Files[k] = []byte("rows-of-" + k)
	}
	var backend storage.Backend = st
	if zz.Bool("backend_without_batch_delete") {
		backend = c09NoBatch{Backend: st, inner: st}
	}
	mm := NewManifestManager(backend, zerolog.Nop())
	j := NewJob(&JobConfig{Measurement: "m", PartitionPath: "db/m/2024/01/01/00", Files: append([]string(nil), c09Inputs[:n]...),
		StorageBackend: backend, Database: "db", Tier: "hourly", TempDirectory: zz.TempPath("compaction"), Logger: zerolog.Nop(), ManifestManager: mm, JobID: "job1"})
	c09TermAfterUpload, c09Cancelled = false, false
	switch zz.Choice("disturbance", 3) {
	case 0:
		st.Crashes = true
		st.tornUploads = zz.Bool("torn_uploads")
	case 1:
		st.Faults = true
		st.NoFault["read"] = true
	default:
		// the job process is asked to stop (SIGTERM): its context is cancelled once the
		// output has been uploaded, the storage calls themselves keep working
		c09TermAfterUpload = true
		zz.Reach("terminated")
	}
	err, crashed := c09RunGuarded(func() error { return j.Run(c09Ctx{cancelled: &c09Cancelled}) })
	c09TermAfterUpload = false
	st.Crashes, st.Faults = false, false
	_ = err
	if crashed {
		zz.Reach("crashed")
	}
	// state the next process finds (temp files are gone with the process or cleaned up)
	mm = NewManifestManager(st, zerolog.Nop())
	c09Check(st, mm, n, "after the job")
	// next cycle: manifest recovery
	_, rerr := mm.RecoverOrphanedManifests(context.Background(), nil, nil)
	zz.Assert(rerr == nil, "fault-free manifest recovery failed")
	mm = NewManifestManager(st, zerolog.Nop())
	c09Check(st, mm, n, "after recovery")
	left, lerr := mm.ListManifests(context.Background())
	zz.Assert(lerr == nil && len(left) == 0, "a manifest survives a fault-free recovery pass")
	out, hasOut := st.Files["db/m/2024/01/01/00/m_compacted.parquet"]
	present := 0
	for _, k := range c09Inputs[:n] {
		if _, ok := st.Files[k]; ok {
			present++
		}
	}
	if hasOut {
		zz.Assert(string(out) == c09Output, "a truncated output survives recovery")
		zz.Assert(present == 0, "after recovery the partition shows both the output and inputs (rows visible twice)")
	} else {
		zz.Assert(present == n, "after recovery neither the output nor all inputs are present (rows lost)")
	}
	zz.Reach("end")
}

// ---------------- (3) dedup key: union of the tag columns of all inputs ----------------

var c09Tags map[string][]string

// c09ReadTags replaces readTagColumnsFromParquet (Parquet footer metadata via DuckDB).
func c09ReadTags(ctx context.Context, db *dsql.DB, filePath string) ([]string, error) {
	return c09Tags[filePath], nil
}

// VerifC09Tags: the dedup partition key is built from the union of the arc:tags sets of
// ALL inputs of the batch (a file written before a tag was added has a smaller set; using
// only some files' tags would collapse rows that differ in the newer tag).
func VerifC09Tags() {
	n := zz.ParamInt("inputs", 3)
	c09Tags = map[string][]string{}
	var files []string
	want := map[string]bool{}
	any := false
	for i := 0; i < n; i++ {
		f := "f" + string(rune('a'+i))
		files = append(files, f)
		if !zz.Bool("has_tag_metadata_" + f) {
			continue // nil: file carries no arc:tags
		}
		any = true
		tags := []string{}
		for _, t := range []string{"host", "region", "az"} {
			if zz.Bool("file_" + f + "_tag_" + t) {
				tags = append(tags, t)
				want[t] = true
			}
		}
		c09Tags[f] = tags
	}
	got, err := readTagColumnsFromParquetFiles(context.Background(), nil, files)
	zz.Assert(err == nil, "tag metadata read failed")
	if !any {
		zz.Assert(got == nil, "tag columns reported although no input carries tag metadata")
	} else {
		zz.Assert(got != nil || len(want) == 0, "tag metadata present but no dedup key returned")
		zz.Assert(len(got) == len(want), "dedup key is not the union of the inputs' tag columns")
		for i, t := range got {
			zz.Assert(want[t], "dedup key contains a column that is no input's tag")
			zz.Assert(i == 0 || got[i-1] < t, "dedup key columns not sorted/unique (nondeterministic query text)")
		}
	}
	zz.Reach("end")
}

// ---- output names of jobs that can run for one partition within the same second ----

func c09Conn(db *dsql.DB, ctx context.Context) (*dsql.Conn, error) { return &dsql.Conn{}, nil }
func c09HasTime(ctx context.Context, db *dsql.DB, fileListSQL string) (bool, error) {
	return true, nil
}
func c09NoTags(ctx context.Context, db *dsql.DB, paths []string) ([]string, error) { return nil, nil }
func c09NoDedupTime(ctx context.Context, db *dsql.DB, paths []string) (bool, error) {
	return false, nil
}
func c09KeepOrder(ctx context.Context, conn *dsql.Conn) (func(), error) { return func() {}, nil }

// VerifC09OutputNames: two jobs for the same partition and tier run the real compactFiles
// (validation, probes and the DuckDB statements are stand-ins that succeed) one after the
// other, at two different clock readings: 1 ns, 999 ms (still the same second) or 1 s apart.
// The jobs are sibling batches of one split (different batch numbers) or the two halves of
// an adaptive retry (the same batch number). The uploaded storage key derives from the
// output's base name, so the two names must differ: a collision lets the second upload
// overwrite the first job's output after its inputs were already deleted. (The clock
// readings are three concrete scenarios: this run is concrete execution, no solver query
// decides it.)
func VerifC09OutputNames() {
	mk := func(batch int) *Job {
		return &Job{Measurement: "cpu", Database: "db", Tier: zz.Param("tier", "hourly"), BatchNumber: batch, db: &dsql.DB{}, logger: zerolog.Nop()}
	}
	b1 := 1 + zz.Choice("batch_1", 2)
	b2 := b1
	if zz.Bool("sibling_batches") {
		b2 = b1 + 1
	}
	files := []downloadedFile{{storageKey: "db/cpu/2024/01/01/00/a.parquet", localPath: "/tmp/w/a.parquet", size: 1}}
	const t1 = int64(1700000000_000000001)
	gap := []int64{1, 999_000_000, 1_000_000_000}[zz.Choice("gap", 3)]
	zz.ClockFixed(t1)
	o1, e1 := mk(b1).compactFiles(context.Background(), files, "/tmp/w")
	zz.ClockFixed(t1 + gap)
	o2, e2 := mk(b2).compactFiles(context.Background(), files, "/tmp/w")
	zz.Assert(e1 == nil && e2 == nil, "compaction failed although every step succeeds")
	zz.Assert(filepath.Base(o1) != filepath.Base(o2), "two jobs of one partition produced the same output name: the second upload overwrites the first job's compacted file")
	zz.Reach("end")
}
