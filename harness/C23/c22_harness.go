//go:build verif

package raft

import (
	"time"

	zz "github.com/basekick-labs/arc/internal/zzverif"
	hraft "github.com/hashicorp/raft"
)

func c22s(i int) string { return string(rune('0' + i)) }

// c22ID: entity ids are Raft log indexes. From the empty state ids 1..3 can exist; after the
// populated prefix (param populated=1) ids 1..8 exist, 11 does not.
func c22ID(name string) int64 {
	if zz.ParamInt("populated", 0) == 1 {
		return zz.OneOfInt64(name, 0, 1, 2, 3, 4, 5, 6, 7, 8, 11)
	}
	return zz.OneOfInt64(name, 0, 1, 2, 3)
}

func c22TokenID(name string) int64 {
	if zz.ParamInt("populated", 0) == 1 {
		return zz.OneOfInt64(name, 0, 1, 7, 11)
	}
	return zz.OneOfInt64(name, 0, 1, 2)
}

// c22Populate applies a fixed, valid history: token t1 (id 1), organization x (2), team x
// under it (3), a role of that team (4), a measurement permission of that role (5) and the
// membership of token 1 in team 3 (6), a second token t2 (7) and its membership in the same
// team (8): one team with two members, so removing one membership must leave the other's
// index entries alone. The symbolic commands then start at index 9.
func c22Populate(f *ClusterFSM) {
	ok := func(r interface{}) { zz.Assert(r == nil, "the fixed populating history was rejected") }
	ok(c2xApply(f, 1, CommandCreateToken, CreateTokenPayload{Token: TokenEntry{Name: "t1", Permissions: "read", TokenHash: "h1", TokenPrefix: "p1", CreatedAtUnixNano: 7, Enabled: true}}))
	ok(c2xApply(f, 2, CommandCreateOrganization, CreateOrganizationPayload{Organization: OrganizationEntry{Name: "x", CreatedAtUnixNano: 7, UpdatedAtUnixNano: 7, Enabled: true}}))
	ok(c2xApply(f, 3, CommandCreateTeam, CreateTeamPayload{Team: TeamEntry{OrganizationID: 2, Name: "x", CreatedAtUnixNano: 7, UpdatedAtUnixNano: 7, Enabled: true}}))
	ok(c2xApply(f, 4, CommandCreateRole, CreateRolePayload{Role: RoleEntry{TeamID: 3, DatabasePattern: "*", Permissions: "read", CreatedAtUnixNano: 7}}))
	ok(c2xApply(f, 5, CommandCreateMeasurementPermission, CreateMeasurementPermissionPayload{MeasurementPermission: MeasurementPermissionEntry{RoleID: 4, MeasurementPattern: "*", Permissions: "read", CreatedAtUnixNano: 7}}))
	ok(c2xApply(f, 6, CommandAddTokenToTeam, AddTokenToTeamPayload{Membership: TokenMembershipEntry{TokenID: 1, TeamID: 3, CreatedAtUnixNano: 7}}))
	ok(c2xApply(f, 7, CommandCreateToken, CreateTokenPayload{Token: TokenEntry{Name: "t2", Permissions: "read", TokenHash: "h7", TokenPrefix: "p7", CreatedAtUnixNano: 7, Enabled: true}}))
	ok(c2xApply(f, 8, CommandAddTokenToTeam, AddTokenToTeamPayload{Membership: TokenMembershipEntry{TokenID: 7, TeamID: 3, CreatedAtUnixNano: 7}}))
}

// ---------------- token family ----------------

func c22TokenCommand(i int, idx uint64) (CommandType, interface{}) {
	s := c22s(i)
	id := c22ID("tok_id_" + s)
	switch zz.Choice("tok_kind_"+s, 5) {
	case 0:
		return CommandCreateToken, CreateTokenPayload{Token: TokenEntry{
			Name:              zz.OneOf("tok_name_"+s, "", "t1", "t2"),
			Permissions:       zz.OneOf("tok_perm_"+s, "", "read", "read,bogus"),
			TokenHash:         zz.OneOf("tok_hash_"+s, "", "h1"),
			TokenPrefix:       zz.OneOf("tok_prefix_"+s, "", "p1", "p2"),
			CreatedAtUnixNano: zz.OneOfInt64("tok_created_"+s, 0, 7),
			Enabled:           zz.Bool("tok_enabled_" + s),
		}}
	case 1:
		var changed []string
		if zz.Bool("tok_chg_name_" + s) {
			changed = append(changed, "name")
		}
		if zz.Bool("tok_chg_perm_" + s) {
			changed = append(changed, "permissions")
		}
		return CommandUpdateToken, UpdateTokenPayload{ID: id,
			Name:          zz.OneOf("tok_name_"+s, "", "t1", "t2"),
			Permissions:   zz.OneOf("tok_perm_"+s, "", "read", "read,bogus"),
			ChangedFields: changed}
	case 2:
		return CommandRevokeToken, RevokeTokenPayload{ID: id}
	case 3:
		return CommandDeleteToken, DeleteTokenPayload{ID: id}
	default:
		return CommandRotateToken, RotateTokenPayload{ID: id,
			NewHash:   zz.OneOf("tok_hash_"+s, "", "h2"),
			NewPrefix: zz.OneOf("tok_prefix_"+s, "", "p1", "p2")}
	}
}

// ---------------- file family ----------------

func c22FileEntry(s string) FileEntry {
	created := time.Time{}
	if zz.Bool("file_has_created_" + s) {
		created = time.Unix(1700000000, 0).UTC()
	}
	return FileEntry{
		Path:      zz.OneOf("file_path_"+s, "", "db/m/f1.parquet", "db/m/f2.parquet", "../x"),
		Database:  zz.OneOf("file_db_"+s, "", "db", "db2"),
		SizeBytes: 1,
		Tier:      "hot",
		CreatedAt: created,
	}
}

func c22FileOp(s string) (CommandType, interface{}) {
	switch zz.Choice("file_kind_"+s, 3) {
	case 0:
		return CommandRegisterFile, RegisterFilePayload{File: c22FileEntry(s)}
	case 1:
		return CommandDeleteFile, DeleteFilePayload{Path: zz.OneOf("file_path_"+s, "", "db/m/f1.parquet", "db/m/f2.parquet"), Reason: "compaction"}
	default:
		return CommandUpdateFile, UpdateFilePayload{File: c22FileEntry(s)}
	}
}

func c22FileCommand(i int, idx uint64) (CommandType, interface{}) {
	s := c22s(i)
	if zz.ParamInt("batch", 0) == 1 && i == zz.ParamInt("k", 2)-1 {
		n := zz.ParamInt("batch_ops", 2)
		var ops []BatchFileOp
		for j := 0; j < n; j++ {
			t, p := c22FileOp(s + "_" + c22s(j))
			pb, err := jsonMarshalForBatch(p)
			if err != nil {
				panic(err)
			}
			if j == n-1 && zz.Bool("file_op_badtype_"+s) {
				t = CommandAddNode
			}
			ops = append(ops, BatchFileOp{Type: t, Payload: pb})
		}
		return CommandBatchFileOps, BatchFileOpsPayload{Ops: ops}
	}
	return c22FileOp(s)
}

// ---------------- RBAC family ----------------

func c22RBACCommand(i int, idx uint64) (CommandType, interface{}) {
	s := c22s(i)
	id := c22ID("rbac_id_" + s)
	parent := c22ID("rbac_parent_" + s)
	created := zz.OneOfInt64("rbac_created_"+s, 0, 7)
	name := zz.OneOf("rbac_name_"+s, "", "x", "y")
	perm := zz.OneOf("rbac_perm_"+s, "read", "read,bogus")
	var changed []string
	switch zz.Choice("rbac_kind_"+s, 13) {
	case 0:
		return CommandCreateOrganization, CreateOrganizationPayload{Organization: OrganizationEntry{Name: name, CreatedAtUnixNano: created, UpdatedAtUnixNano: created, Enabled: true}}
	case 1:
		if zz.Bool("rbac_chg_name_" + s) {
			changed = append(changed, "name")
		}
		if zz.Bool("rbac_chg_enabled_" + s) {
			changed = append(changed, "enabled")
		}
		return CommandUpdateOrganization, UpdateOrganizationPayload{ID: id, Name: name, Enabled: zz.Bool("rbac_enabled_" + s), UpdatedAtUnixNano: 9, ChangedFields: changed}
	case 2:
		return CommandDeleteOrganization, DeleteOrganizationPayload{ID: id}
	case 3:
		return CommandCreateTeam, CreateTeamPayload{Team: TeamEntry{OrganizationID: parent, Name: name, CreatedAtUnixNano: created, UpdatedAtUnixNano: created, Enabled: true}}
	case 4:
		if zz.Bool("rbac_chg_name_" + s) {
			changed = append(changed, "name")
		}
		if zz.Bool("rbac_chg_enabled_" + s) {
			changed = append(changed, "enabled")
		}
		return CommandUpdateTeam, UpdateTeamPayload{ID: id, Name: name, Enabled: zz.Bool("rbac_enabled_" + s), UpdatedAtUnixNano: 9, ChangedFields: changed}
	case 5:
		return CommandDeleteTeam, DeleteTeamPayload{ID: id}
	case 6:
		return CommandCreateRole, CreateRolePayload{Role: RoleEntry{TeamID: parent, DatabasePattern: zz.OneOf("rbac_pat_"+s, "", "*"), Permissions: perm, CreatedAtUnixNano: created}}
	case 7:
		if zz.Bool("rbac_chg_perm_" + s) {
			changed = append(changed, "permissions")
		}
		if zz.Bool("rbac_chg_pat_" + s) {
			changed = append(changed, "database_pattern")
		}
		return CommandUpdateRole, UpdateRolePayload{ID: id, DatabasePattern: zz.OneOf("rbac_pat_"+s, "", "*"), Permissions: perm, ChangedFields: changed}
	case 8:
		return CommandDeleteRole, DeleteRolePayload{ID: id}
	case 9:
		return CommandCreateMeasurementPermission, CreateMeasurementPermissionPayload{MeasurementPermission: MeasurementPermissionEntry{RoleID: parent, MeasurementPattern: zz.OneOf("rbac_pat_"+s, "", "*"), Permissions: perm, CreatedAtUnixNano: created}}
	case 10:
		return CommandDeleteMeasurementPermission, DeleteMeasurementPermissionPayload{ID: id}
	case 11:
		return CommandAddTokenToTeam, AddTokenToTeamPayload{Membership: TokenMembershipEntry{TokenID: c22TokenID("rbac_token_" + s), TeamID: parent, CreatedAtUnixNano: created}}
	default:
		return CommandRemoveTokenFromTeam, RemoveTokenFromTeamPayload{TokenID: c22TokenID("rbac_token_" + s), TeamID: parent}
	}
}

// ---------------- oracles ----------------

// c22IndexesAgree: every lookup index equals what a rebuild from the primary records
// gives (the rebuild rules are those of Restore).
func c22IndexesAgree(f *ClusterFSM, when string) {
	// files by database
	n := 0
	for path, e := range f.files {
		idx, ok := f.filesByDB[e.Database]
		_, in := idx[path]
		zz.Assert(ok && in, "file missing from the files-by-database index ("+when+")")
		zz.Assert(e.Path == path, "file stored under a key that is not its path ("+when+")")
		n++
	}
	m := 0
	for db, idx := range f.filesByDB {
		zz.Assert(len(idx) > 0, "empty per-database set left in the files-by-database index ("+when+")")
		for path := range idx {
			e, ok := f.files[path]
			zz.Assert(ok && e.Database == db, "files-by-database index lists a file that is not in that database ("+when+")")
			m++
		}
	}
	zz.Assert(n == m, "files-by-database index size differs from the manifest ("+when+")")
	// tokens by name / prefix
	for id, t := range f.tokens {
		zz.Assert(t.ID == id, "token stored under a key that is not its id ("+when+")")
		got, ok := f.tokensByName[t.Name]
		zz.Assert(ok && got == id, "token missing from (or shadowed in) the tokens-by-name index ("+when+")")
		found := 0
		for _, x := range f.tokensByPrefix[t.TokenPrefix] {
			if x == id {
				found++
			}
		}
		zz.Assert(found == 1, "token not listed exactly once under its prefix ("+when+")")
	}
	zz.Assert(len(f.tokensByName) == len(f.tokens), "tokens-by-name index size differs from the token map ("+when+")")
	np := 0
	for p, ids := range f.tokensByPrefix {
		zz.Assert(len(ids) > 0, "empty id list left in the tokens-by-prefix index ("+when+")")
		for _, id := range ids {
			t, ok := f.tokens[id]
			zz.Assert(ok && t.TokenPrefix == p, "tokens-by-prefix index lists a token that does not have that prefix ("+when+")")
			np++
		}
	}
	zz.Assert(np == len(f.tokens), "tokens-by-prefix index size differs from the token map ("+when+")")
	// RBAC
	for id, o := range f.organizations {
		got, ok := f.organizationsByName[o.Name]
		zz.Assert(o.ID == id && ok && got == id, "organization missing from the by-name index ("+when+")")
	}
	zz.Assert(len(f.organizationsByName) == len(f.organizations), "organizations-by-name index size differs ("+when+")")
	nt := 0
	for id, t := range f.teams {
		got, ok := f.teamsByOrg[t.OrganizationID][t.Name]
		zz.Assert(t.ID == id && ok && got == id, "team missing from the teams-by-organization index ("+when+")")
	}
	for org, names := range f.teamsByOrg {
		for name, id := range names {
			t, ok := f.teams[id]
			zz.Assert(ok && t.OrganizationID == org && t.Name == name, "teams-by-organization index lists a stale team ("+when+")")
			nt++
		}
	}
	zz.Assert(nt == len(f.teams), "teams-by-organization index size differs ("+when+")")
	nr := 0
	for id, r := range f.roles {
		_, ok := f.rolesByTeam[r.TeamID][id]
		zz.Assert(r.ID == id && ok, "role missing from the roles-by-team index ("+when+")")
	}
	for team, ids := range f.rolesByTeam {
		for id := range ids {
			r, ok := f.roles[id]
			zz.Assert(ok && r.TeamID == team, "roles-by-team index lists a stale role ("+when+")")
			nr++
		}
	}
	zz.Assert(nr == len(f.roles), "roles-by-team index size differs ("+when+")")
	nm := 0
	for id, p := range f.measurementPermissions {
		_, ok := f.measurementPermsByRole[p.RoleID][id]
		zz.Assert(p.ID == id && ok, "measurement permission missing from the by-role index ("+when+")")
	}
	for role, ids := range f.measurementPermsByRole {
		for id := range ids {
			p, ok := f.measurementPermissions[id]
			zz.Assert(ok && p.RoleID == role, "measurement-permissions-by-role index lists a stale entry ("+when+")")
			nm++
		}
	}
	zz.Assert(nm == len(f.measurementPermissions), "measurement-permissions-by-role index size differs ("+when+")")
	a, b, c := 0, 0, 0
	for id, e := range f.tokenMemberships {
		got, ok := f.tokenMembershipsByPair[e.TokenID][e.TeamID]
		_, ok2 := f.tokenMembershipsByToken[e.TokenID][id]
		_, ok3 := f.tokenMembershipsByTeam[e.TeamID][id]
		zz.Assert(e.ID == id && ok && got == id && ok2 && ok3, "membership missing from a membership index ("+when+")")
	}
	for tok, teams := range f.tokenMembershipsByPair {
		for team, id := range teams {
			e, ok := f.tokenMemberships[id]
			zz.Assert(ok && e.TokenID == tok && e.TeamID == team, "membership pair index lists a stale entry ("+when+")")
			a++
		}
	}
	for tok, ids := range f.tokenMembershipsByToken {
		for id := range ids {
			e, ok := f.tokenMemberships[id]
			zz.Assert(ok && e.TokenID == tok, "memberships-by-token index lists a stale entry ("+when+")")
			b++
		}
	}
	for team, ids := range f.tokenMembershipsByTeam {
		for id := range ids {
			e, ok := f.tokenMemberships[id]
			zz.Assert(ok && e.TeamID == team, "memberships-by-team index lists a stale entry ("+when+")")
			c++
		}
	}
	zz.Assert(a == len(f.tokenMemberships) && b == a && c == a, "membership index sizes differ ("+when+")")
}

// c22ParentsExist (C23): every team, role, measurement permission and membership refers
// to parents that exist.
func c22ParentsExist(f *ClusterFSM, when string) {
	for _, t := range f.teams {
		_, ok := f.organizations[t.OrganizationID]
		zz.Assert(ok, "team refers to an organization that does not exist ("+when+")")
	}
	for _, r := range f.roles {
		_, ok := f.teams[r.TeamID]
		zz.Assert(ok, "role refers to a team that does not exist ("+when+")")
	}
	for _, p := range f.measurementPermissions {
		_, ok := f.roles[p.RoleID]
		zz.Assert(ok, "measurement permission refers to a role that does not exist ("+when+")")
	}
	for _, e := range f.tokenMemberships {
		_, ok := f.teams[e.TeamID]
		zz.Assert(ok, "membership refers to a team that does not exist ("+when+")")
		_, ok = f.tokens[e.TokenID]
		zz.Assert(ok, "membership refers to a token that does not exist ("+when+")")
	}
}

func c22FileEq(a, b *FileEntry) bool {
	return a.Path == b.Path && a.SHA256 == b.SHA256 && a.SizeBytes == b.SizeBytes && a.Database == b.Database &&
		a.Measurement == b.Measurement && a.PartitionTime.Equal(b.PartitionTime) && a.OriginNodeID == b.OriginNodeID &&
		a.Tier == b.Tier && a.CreatedAt.Equal(b.CreatedAt) && a.LSN == b.LSN
}

// c22PrimariesEqual: the primary records of two state machines are equal.
func c22PrimariesEqual(a, b *ClusterFSM) bool {
	if !c2xNodesEqual(a, b) {
		return false
	}
	if len(a.files) != len(b.files) || len(a.tokens) != len(b.tokens) || len(a.organizations) != len(b.organizations) ||
		len(a.teams) != len(b.teams) || len(a.roles) != len(b.roles) ||
		len(a.measurementPermissions) != len(b.measurementPermissions) || len(a.tokenMemberships) != len(b.tokenMemberships) {
		return false
	}
	for k, x := range a.files {
		y, ok := b.files[k]
		if !ok || !c22FileEq(x, y) {
			return false
		}
	}
	for k, x := range a.tokens {
		y, ok := b.tokens[k]
		if !ok || *x != *y {
			return false
		}
	}
	for k, x := range a.organizations {
		y, ok := b.organizations[k]
		if !ok || *x != *y {
			return false
		}
	}
	for k, x := range a.teams {
		y, ok := b.teams[k]
		if !ok || *x != *y {
			return false
		}
	}
	for k, x := range a.roles {
		y, ok := b.roles[k]
		if !ok || *x != *y {
			return false
		}
	}
	for k, x := range a.measurementPermissions {
		y, ok := b.measurementPermissions[k]
		if !ok || *x != *y {
			return false
		}
	}
	for k, x := range a.tokenMemberships {
		y, ok := b.tokenMemberships[k]
		if !ok || *x != *y {
			return false
		}
	}
	return true
}

func c22SameOutcome(r1, r2 interface{}) bool {
	_, e1 := r1.(error)
	_, e2 := r2.(error)
	return e1 == e2 && (r1 == nil) == (r2 == nil)
}

// VerifC22: every history of k commands of one family (param family = nodes | tokens |
// files | rbac) from the empty state; a replica is created by Snapshot -> Persist ->
// Restore after a solver-chosen prefix and then applies the same remaining log entries.
//   - the restored state equals the state the snapshot was taken from (primary records)
//   - the replica and the original end in the same state and gave the same outcome for
//     every command
//   - on both, after every command, every lookup index agrees with the primary records
//     and every RBAC child has its parent (C23)
//   - a command that reports an error leaves the primary records unchanged
//     (all-or-nothing; this is what makes a rejected batch leave no trace)
func VerifC22() {
	k := zz.ParamInt("k", 2)
	family := zz.Param("family", "tokens")
	f := c2xNew()
	base := uint64(0)
	if zz.ParamInt("populated", 0) == 1 {
		c22Populate(f)
		base = 8
		c22IndexesAgree(f, "after the populating history")
		c22ParentsExist(f, "after the populating history")
	}
	var g, frozen *ClusterFSM
	var lateSnap hraft.FSMSnapshot
	var lerr error
	snapAt := zz.Choice("snapshot_after", k+1)
	for i := 0; i <= k; i++ {
		if i == snapAt {
			g = c2xSnapshotRestore(f)
			zz.Assert(c22PrimariesEqual(f, g), "state restored from a snapshot differs from the state the snapshot was taken from")
			c22IndexesAgree(g, "restored replica")
			// raft calls Snapshot() under the apply lock and Persist() later, while
			// further entries are applied: keep a second snapshot object of this prefix
			// and a frozen copy of the prefix state to compare it with at the end
			lateSnap, lerr = f.Snapshot()
			zz.Assert(lerr == nil, "Snapshot failed")
			frozen = c2xSnapshotRestoreQuiet(f)
		}
		if i == k {
			break
		}
		idx := base + uint64(i+1)
		var t CommandType
		var p interface{}
		switch family {
		case "nodes":
			// node commands are generated and applied through c2xNodeCommand's payloads
			t, p = c22NodePayload(i)
		case "tokens":
			t, p = c22TokenCommand(i, idx)
		case "files":
			t, p = c22FileCommand(i, idx)
		case "auth":
			// tokens and RBAC together (memberships need both)
			if zz.Bool("auth_is_token_cmd_" + c22s(i)) {
				t, p = c22TokenCommand(i, idx)
			} else {
				t, p = c22RBACCommand(i, idx)
			}
		default:
			t, p = c22RBACCommand(i, idx)
		}
		data := c2xCmd(t, p)
		var before *ClusterFSM
		if zz.ParamInt("atomic", 1) == 1 {
			before = c2xSnapshotRestoreQuiet(f)
		}
		r1 := f.Apply(&hraftLog{Index: idx, Data: data})
		when := "after command " + string(rune('1'+i))
		if _, failed := r1.(error); failed && before != nil {
			zz.Assert(c22PrimariesEqual(before, f), "a command that reported an error changed the state ("+when+")")
		}
		c22IndexesAgree(f, when)
		c22ParentsExist(f, when)
		if g != nil {
			r2 := g.Apply(&hraftLog{Index: idx, Data: data})
			zz.Assert(c22SameOutcome(r1, r2), "a replica restored from a snapshot answered a command differently from the original ("+when+")")
			c22IndexesAgree(g, when+", restored replica")
		}
	}
	zz.Assert(g != nil && c22PrimariesEqual(f, g), "a replica restored from a snapshot and fed the same log suffix ends in a different state")
	if lateSnap != nil && frozen != nil {
		sink := &c2xSink{}
		zz.Assert(lateSnap.Persist(sink) == nil && len(sink.chunks) == 1, "Persist of an earlier snapshot failed")
		if len(sink.chunks) == 1 {
			late := c2xNew()
			zz.Assert(late.Restore(&c2xReader{data: sink.chunks[0]}) == nil, "Restore failed")
			zz.Assert(c22PrimariesEqual(frozen, late), "a snapshot taken at a prefix was altered by entries applied before it was persisted")
		}
	}
	zz.Reach("end")
}
