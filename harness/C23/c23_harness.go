//go:build verif

package raft

import (
	zz "github.com/basekick-labs/arc/internal/zzverif"
)

// c23RoleInvariant: at most one node marked primary writer; a node named as the primary
// writer exists and is marked primary.
func c23RoleInvariant(f *ClusterFSM, when string) {
	primaries := 0
	for _, n := range f.nodes {
		if n.WriterState == "primary" {
			primaries++
		}
	}
	zz.Assert(primaries <= 1, "more than one node is marked primary writer ("+when+")")
	if f.primaryWriterID != "" {
		n, ok := f.nodes[f.primaryWriterID]
		zz.Assert(ok, "the node named as primary writer does not exist ("+when+")")
		if ok {
			zz.Assert(n.WriterState == "primary", "the node named as primary writer is not marked primary ("+when+")")
		}
	}
	for id, n := range f.nodes {
		if n.WriterState == "primary" {
			zz.Assert(f.primaryWriterID == id, "a node is marked primary but is not the recorded primary writer ("+when+")")
		}
	}
}

// VerifC23Nodes: every history of k node/writer/compactor commands from the empty state
// keeps the role invariant after every command, and re-registering (AddNode/UpdateNode for
// an id that is already registered) does not change the writer state the cluster recorded
// for that node.
func VerifC23Nodes() {
	k := zz.ParamInt("k", 3)
	f := c2xNew()
	if zz.ParamInt("arbitrary_start", 0) == 1 {
		// inductive step: start from an arbitrary state that satisfies the invariant
		// (any subset of {a,b,c} registered with any role/state, any one of the
		// registered writers - or none - recorded and marked as primary, the other
		// writers standby or unmarked) instead of the empty state
		prim := zz.OneOf("start_primary", "", "a", "b", "c")
		for _, id := range c2xNodeIDs {
			if !zz.Bool("start_has_" + id) {
				continue
			}
			n := &NodeInfo{ID: id, Name: "n",
				Role:  zz.OneOf("start_role_"+id, "writer", "reader", "compactor", "bogus"),
				State: zz.OneOf("start_state_"+id, "healthy", "dead")}
			if prim == id {
				n.WriterState = "primary"
			} else {
				n.WriterState = zz.OneOf("start_ws_"+id, "", "standby")
			}
			f.nodes[id] = n
		}
		if prim != "" {
			_, ok := f.nodes[prim]
			zz.Assume(ok)
			zz.Assume(f.nodes[prim].Role == "writer")
			f.primaryWriterID = prim
		}
		f.activeCompactorID = zz.OneOf("start_compactor", "", "a", "b")
	}
	for i := 0; i < k; i++ {
		// what the cluster recorded before the command
		before := map[string]string{}
		for id, n := range f.nodes {
			before[id] = n.WriterState
		}
		kind, id := c2xNodeCommand(f, i, uint64(i+1))
		c23RoleInvariant(f, "after command "+string(rune('1'+i)))
		if kind == 0 || kind == 2 {
			if ws, was := before[id]; was {
				n, ok := f.nodes[id]
				zz.Assert(ok && n.WriterState == ws, "re-registering an existing node silently changed its recorded writer state")
			}
		}
	}
	zz.Reach("end")
}
