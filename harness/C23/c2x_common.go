//go:build verif

package raft

import (
	"bytes"
	"encoding/json"
	"io"

	zz "github.com/basekick-labs/arc/internal/zzverif"
	hraft "github.com/hashicorp/raft"
	"github.com/rs/zerolog"
)

// ---- command construction exactly as the proposers in raft/node.go do it ----

func c2xCmd(t CommandType, payload interface{}) []byte {
	pb, err := json.Marshal(payload)
	if err != nil {
		panic(err)
	}
	b, err := json.Marshal(Command{Type: t, Payload: pb})
	if err != nil {
		panic(err)
	}
	return b
}

func c2xApply(f *ClusterFSM, idx uint64, t CommandType, payload interface{}) interface{} {
	return f.Apply(&hraft.Log{Index: idx, Data: c2xCmd(t, payload)})
}

func c2xNew() *ClusterFSM { return NewClusterFSM(zerolog.Nop()) }

// ---- snapshot sink / reader (in memory) ----

type c2xSink struct {
	chunks    [][]byte
	cancelled bool
	closed    bool
}

func (s *c2xSink) Write(p []byte) (int, error) { s.chunks = append(s.chunks, p); return len(p), nil }
func (s *c2xSink) Close() error                { s.closed = true; return nil }
func (s *c2xSink) ID() string                  { return "verif" }
func (s *c2xSink) Cancel() error               { s.cancelled = true; return nil }

type c2xReader struct {
	data []byte
	r    *bytes.Reader
}

func (r *c2xReader) Read(p []byte) (int, error) {
	if r.r == nil {
		r.r = bytes.NewReader(r.data)
	}
	return r.r.Read(p)
}
func (r *c2xReader) Close() error          { return nil }
func (r *c2xReader) VerifJSONBlob() []byte { return r.data }

var _ io.ReadCloser = (*c2xReader)(nil)

// c2xSnapshotRestore: Snapshot -> Persist -> Restore into a fresh FSM.
func c2xSnapshotRestore(f *ClusterFSM) *ClusterFSM {
	snap, err := f.Snapshot()
	zz.Assert(err == nil, "Snapshot failed")
	sink := &c2xSink{}
	zz.Assert(snap.Persist(sink) == nil, "Persist failed")
	zz.Assert(len(sink.chunks) == 1 && !sink.cancelled, "Persist did not write exactly one snapshot")
	g := c2xNew()
	zz.Assert(g.Restore(&c2xReader{data: sink.chunks[0]}) == nil, "Restore failed")
	return g
}

// ---- node family ----

var c2xNodeIDs = []string{"a", "b", "c"}

func c2xNodeInfo(i int) NodeInfo {
	s := string(rune('0' + i))
	return NodeInfo{
		ID:    zz.OneOf("node_id_"+s, "a", "b", "c"),
		Name:  "n",
		Role:  zz.OneOf("node_role_"+s, "writer", "reader", "compactor", "bogus"),
		State: zz.OneOf("node_state_"+s, "healthy", "dead"),
		// the proposers (handleJoinRequest, registerSelfInFSMWhenLeader, AddNodeViaRaft)
		// never set WriterState: it is owned by promote/demote
	}
}

// c2xNodeCommand applies the i-th command of the node family; kind is a concrete choice
// (one exploration per kind), ids/roles/states are solver-chosen from pools.
func c2xNodeCommand(f *ClusterFSM, i int, idx uint64) (kind int, id string) {
	s := string(rune('0' + i))
	kind = zz.Choice("node_kind_"+s, 7)
	switch kind {
	case 0:
		n := c2xNodeInfo(i)
		c2xApply(f, idx, CommandAddNode, AddNodePayload{Node: n})
		return kind, n.ID
	case 1:
		id = zz.OneOf("node_id_"+s, "a", "b", "c")
		c2xApply(f, idx, CommandRemoveNode, RemoveNodePayload{NodeID: id})
	case 2:
		n := c2xNodeInfo(i)
		c2xApply(f, idx, CommandUpdateNode, UpdateNodePayload{Node: n})
		return kind, n.ID
	case 3:
		id = zz.OneOf("node_id_"+s, "a", "b", "c")
		c2xApply(f, idx, CommandUpdateNodeState, UpdateNodeStatePayload{NodeID: id, NewState: zz.OneOf("node_state_"+s, "healthy", "dead")})
	case 4:
		id = zz.OneOf("node_id_"+s, "", "a", "b", "c")
		c2xApply(f, idx, CommandPromoteWriter, PromoteWriterPayload{NodeID: id, OldPrimaryID: zz.OneOf("old_primary_"+s, "", "a", "b")})
	case 5:
		id = zz.OneOf("node_id_"+s, "", "a", "b", "c")
		c2xApply(f, idx, CommandDemoteWriter, DemoteWriterPayload{NodeID: id})
	case 6:
		id = zz.OneOf("node_id_"+s, "", "a", "b", "c")
		c2xApply(f, idx, CommandAssignCompactor, AssignCompactorPayload{NodeID: id})
	}
	return kind, id
}

// c2xNodesEqual: same node records, same role bookkeeping.
func c2xNodesEqual(a, b *ClusterFSM) bool {
	if len(a.nodes) != len(b.nodes) || a.primaryWriterID != b.primaryWriterID || a.activeCompactorID != b.activeCompactorID {
		return false
	}
	for id, n := range a.nodes {
		m, ok := b.nodes[id]
		if !ok || m == nil || n == nil || *n != *m {
			return false
		}
	}
	return true
}

type hraftLog = hraft.Log

func jsonMarshalForBatch(v interface{}) ([]byte, error) { return json.Marshal(v) }

// c2xSnapshotRestoreQuiet: an independent copy of the state (via the snapshot path) used
// as the "before" image of a command.
func c2xSnapshotRestoreQuiet(f *ClusterFSM) *ClusterFSM {
	snap, _ := f.Snapshot()
	sink := &c2xSink{}
	_ = snap.Persist(sink)
	g := c2xNew()
	if len(sink.chunks) == 1 {
		_ = g.Restore(&c2xReader{data: sink.chunks[0]})
	}
	return g
}

// c22NodePayload: the node family as (type, payload) pairs for the replica runs.
func c22NodePayload(i int) (CommandType, interface{}) {
	s := string(rune('0' + i))
	switch zz.Choice("node_kind_"+s, 7) {
	case 0:
		return CommandAddNode, AddNodePayload{Node: c2xNodeInfo(i)}
	case 1:
		return CommandRemoveNode, RemoveNodePayload{NodeID: zz.OneOf("node_id_"+s, "a", "b", "c")}
	case 2:
		return CommandUpdateNode, UpdateNodePayload{Node: c2xNodeInfo(i)}
	case 3:
		return CommandUpdateNodeState, UpdateNodeStatePayload{NodeID: zz.OneOf("node_id_"+s, "a", "b", "c"), NewState: zz.OneOf("node_state_"+s, "healthy", "dead")}
	case 4:
		return CommandPromoteWriter, PromoteWriterPayload{NodeID: zz.OneOf("node_id_"+s, "", "a", "b", "c"), OldPrimaryID: zz.OneOf("old_primary_"+s, "", "a", "b")}
	case 5:
		return CommandDemoteWriter, DemoteWriterPayload{NodeID: zz.OneOf("node_id_"+s, "", "a", "b", "c")}
	default:
		return CommandAssignCompactor, AssignCompactorPayload{NodeID: zz.OneOf("node_id_"+s, "", "a", "b", "c")}
	}
}
