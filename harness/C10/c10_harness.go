//go:build verif

package api

import (
	"context"
	"database/sql"
	"errors"
	"path/filepath"
	"sort"
	"strings"

	"github.com/basekick-labs/arc/internal/config"
	"github.com/basekick-labs/arc/internal/database"
	"github.com/basekick-labs/arc/internal/storage"
	zz "github.com/basekick-labs/arc/internal/zzverif"
	"github.com/gofiber/fiber/v2"
	"github.com/rs/zerolog"
	"github.com/valyala/fasthttp"
)

// ---- DuckDB as seen from delete.go: a file is a multiset of rows, of which only the
// three-valued outcome of the request's predicate matters: T rows where it is TRUE, F where
// it is FALSE, N where it is NULL. A file's content is one byte, an index into c10Tab. ----

type c10Rows struct{ T, F, N int64 }

var (
	c10Tab    []c10Rows
	c10RowQ   map[*sql.Row]string
	c10Req    DeleteRequest
	c10Status int
	c10Resp   *DeleteResponse
	c10Base   string

	c10CountFailed bool // a per-file count statement failed: delete.go skips that file
)

const c10Where = "v > 5"

func c10RowsOf(path string) (c10Rows, bool) {
	b, ok := zz.FSFileBytes(path)
	if !ok || len(b) != 1 || int(b[0]) >= len(c10Tab) {
		return c10Rows{}, false
	}
	return c10Tab[b[0]], true
}

func c10Between(s, a, b string) (string, bool) {
	i := strings.Index(s, a)
	if i < 0 {
		return "", false
	}
	rest := s[i+len(a):]
	j := strings.Index(rest, b)
	if j < 0 {
		return "", false
	}
	return rest[:j], true
}

// c10Keep: how many of the rows a filter written in SQL keeps, by SQL's three-valued logic.
// The spellings interpreted are the ways of writing a test on the truth value of the
// predicate p: NOT (p), (p) IS [NOT] TRUE / FALSE / NULL, NOT ((p) IS TRUE), p itself.
// Anything else is out of model.
func c10Keep(filter string, r c10Rows) c10Rows {
	p := c10Where
	var t, f, n bool // which truth values of p the filter lets through
	switch strings.TrimSpace(filter) {
	case "NOT (" + p + ")", "(" + p + ") IS FALSE", "NOT (" + p + ") IS TRUE":
		f = true // NOT NULL is NULL: the row is not kept
	case "(" + p + ") IS NOT TRUE", "NOT ((" + p + ") IS TRUE)", "(" + p + ") IS FALSE OR (" + p + ") IS NULL":
		f, n = true, true
	case "(" + p + ") IS NOT FALSE":
		t, n = true, true
	case p, "(" + p + ")", "(" + p + ") IS TRUE":
		t = true
	case "(" + p + ") IS NULL":
		n = true
	case "(" + p + ") IS NOT NULL":
		t, f = true, true
	default:
		zz.OutOfModel("keep filter " + filter)
	}
	var out c10Rows
	if t {
		out.T = r.T
	}
	if f {
		out.F = r.F
	}
	if n {
		out.N = r.N
	}
	return out
}

func c10QueryContext(db *sql.DB, ctx context.Context, q string, args ...interface{}) (*sql.Rows, error) {
	// the batched count (one query over all files) is not modelled: delete.go falls back
	// to one count query per file
	return nil, errors.New("batch count not available")
}

func c10QueryRowContext(db *sql.DB, ctx context.Context, q string, args ...interface{}) *sql.Row {
	r := &sql.Row{}
	c10RowQ[r] = q
	return r
}

func c10Scan(r *sql.Row, dest ...interface{}) error {
	q := c10RowQ[r]
	path, ok := c10Between(q, "read_parquet('", "')")
	if !ok {
		zz.OutOfModel("query without read_parquet: " + q)
	}
	rows, ok := c10RowsOf(path)
	if !ok {
		return errors.New("IO Error: No files found that match the pattern")
	}
	if zz.Bool("duckdb_query_fails") {
		if len(dest) == 1 {
			c10CountFailed = true
		}
		return errors.New("duckdb: out of memory")
	}
	flat := strings.Join(strings.Fields(q), " ")
	switch {
	case len(dest) == 1 && flat == "SELECT COUNT(*) FROM read_parquet('"+path+"') WHERE "+c10Where:
		*dest[0].(*int64) = rows.T
		return nil
	case len(dest) == 2 && strings.HasPrefix(flat, "SELECT COUNT(*) as total, COUNT(*) FILTER (WHERE "):
		filter, ok := c10Between(flat, "FILTER (WHERE ", ") as remaining")
		if !ok {
			zz.OutOfModel("count query " + flat)
		}
		kept := c10Keep(filter, rows)
		*dest[0].(*int64) = rows.T + rows.F + rows.N
		*dest[1].(*int64) = kept.T + kept.F + kept.N
		return nil
	}
	zz.OutOfModel("query " + flat)
	return nil
}

// c10Copy stands for COPY (SELECT * FROM read_parquet(src) WHERE <filter>) TO dst.
func c10Copy(ctx context.Context, db *sql.DB, q string) error {
	flat := strings.Join(strings.Fields(q), " ")
	src, ok1 := c10Between(flat, "read_parquet('", "')")
	filter, ok2 := c10Between(flat, "') WHERE ", " ) TO '")
	dst, ok3 := c10Between(flat, " ) TO '", "'")
	if !ok1 || !ok2 || !ok3 {
		zz.OutOfModel("copy statement " + flat)
	}
	rows, ok := c10RowsOf(src)
	if !ok {
		return errors.New("IO Error: No files found that match the pattern")
	}
	kept := c10Keep(filter, rows)
	switch zz.Choice("copy_outcome", 3) {
	case 1:
		return errors.New("duckdb: disk full") // nothing written
	case 2:
		// a truncated output file is left behind and the statement fails
		c10Tab = append(c10Tab, c10Rows{})
		zz.FSWriteFile(dst, []byte{byte(len(c10Tab) - 1)})
		return errors.New("duckdb: interrupted")
	}
	c10Tab = append(c10Tab, kept)
	zz.FSWriteFile(dst, []byte{byte(len(c10Tab) - 1)})
	return nil
}

// c10List stands for LocalBackend.List (filepath.WalkDir): every file below the prefix whose
// name does not start with a dot, relative to the base path, in lexical order.
func c10List(b *storage.LocalBackend, ctx context.Context, prefix string) ([]string, error) {
	var out []string
	for _, p := range zz.FSList() {
		if !strings.HasPrefix(p, c10Base+"/"+prefix) || strings.HasPrefix(filepath.Base(p), ".") {
			continue
		}
		out = append(out, p[len(c10Base)+1:])
	}
	sort.Strings(out)
	return out, nil
}

// ---- the HTTP layer: request in, status + body out ----

func c10BodyParser(c *fiber.Ctx, out interface{}) error {
	*out.(*DeleteRequest) = c10Req
	return nil
}
func c10SetStatus(c *fiber.Ctx, status int) *fiber.Ctx { c10Status = status; return c }
func c10JSON(c *fiber.Ctx, data interface{}, ctype ...string) error {
	if r, ok := data.(DeleteResponse); ok {
		c10Resp = &r
	}
	return nil
}
func c10Context(c *fiber.Ctx) *fasthttp.RequestCtx { return &fasthttp.RequestCtx{} }

// VerifC10Delete: one delete request (dry run or confirmed) for db.cpu with the predicate
// p over a partition of n files whose rows are arbitrary (any number 0..2 of rows where p
// is TRUE, FALSE and NULL per file), next to a file of another measurement and a
// non-parquet file, through the real handleDelete, findAffectedFiles,
// countMatchingRowsIndividually, rewriteFileWithoutDeletedRows and rewriteLocalFile on the
// real LocalBackend; the count and copy statements may fail, a failed copy may leave a
// truncated temp file.
//   - dry run: nothing changes, and it reports the number of rows for which p is TRUE
//   - confirmed: every file ends either untouched or holding exactly its rows for which p
//     is not TRUE (FALSE and NULL rows stay); a file left without rows is removed; files
//     of other measurements and non-parquet files are untouched
//   - the reported deleted count equals the number of rows that disappeared
//   - without faults every file is processed and the count equals the dry run's
func VerifC10Delete() {
	n := zz.ParamInt("files", 2)
	c10Tab, c10RowQ, c10Status, c10Resp, c10CountFailed = nil, map[*sql.Row]string{}, 200, nil, false
	c10Base = zz.TempPath("data")
	be, err := storage.NewLocalBackend(c10Base, zerolog.Nop())
	zz.Assert(err == nil, "backend")
	var paths []string
	for i := 0; i < n; i++ {
		s := string(rune('a' + i))
		r := c10Rows{T: zz.Int64("true_rows_" + s), F: zz.Int64("false_rows_" + s), N: zz.Int64("null_rows_" + s)}
		zz.Assume(r.T >= 0 && r.T <= 2 && r.F >= 0 && r.F <= 2 && r.N >= 0 && r.N <= 2 && r.T+r.F+r.N > 0)
		c10Tab = append(c10Tab, r)
		p := c10Base + "/db/cpu/2024/01/01/00/" + s + ".parquet"
		zz.FSWriteFile(p, []byte{byte(i)})
		paths = append(paths, p)
	}
	c10Tab = append(c10Tab, c10Rows{T: 1, F: 1, N: 1})
	other := c10Base + "/db/cpu2/2024/01/01/00/x.parquet"
	zz.FSWriteFile(other, []byte{byte(n)})
	note := c10Base + "/db/cpu/2024/01/01/00/notes.txt"
	zz.FSWriteFile(note, []byte{byte(n)})
	orig := append([]c10Rows(nil), c10Tab...)

	h := &DeleteHandler{db: &database.DuckDB{}, storage: be, config: &config.DeleteConfig{Enabled: true, ConfirmationThreshold: 1000, MaxRowsPerDelete: 1000}, logger: zerolog.Nop()}
	c10Req = DeleteRequest{Database: "db", Measurement: "cpu", Where: c10Where, DryRun: zz.Bool("dry_run"), Confirm: true}
	herr := h.handleDelete(new(fiber.Ctx))
	zz.Assert(herr == nil, "handler error")

	var wantDeleted, gone int64
	for i := 0; i < n; i++ {
		wantDeleted += orig[i].T
	}
	allProcessed := true
	for i, p := range paths {
		now, exists := c10RowsOf(p)
		before := orig[i]
		untouched := exists && now == before
		rewritten := (exists && now == c10Rows{F: before.F, N: before.N} && before.F+before.N > 0) || (!exists && before.F+before.N == 0)
		if c10Req.DryRun {
			zz.Assert(untouched, "a dry run changed a file")
			continue
		}
		zz.Assert(untouched || rewritten, "a file ended neither untouched nor holding exactly its rows for which the predicate is not TRUE (rows where it is FALSE or NULL must stay)")
		if rewritten && !untouched {
			gone += before.T
		}
		if untouched && before.T > 0 {
			allProcessed = false
		}
	}
	o, ok := c10RowsOf(other)
	zz.Assert(ok && o == orig[n], "a file of another measurement was changed")
	nb, ok := zz.FSFileBytes(note)
	zz.Assert(ok && len(nb) == 1, "a non-parquet file was changed")
	if c10Resp != nil && c10Status == 200 && c10Resp.Success {
		// listed finding: a file whose count statement fails is skipped with a log line
		// only; the response still says success
		zz.Known("C10-file-skipped-silently-when-its-count-fails", zz.Symbolic() && c10CountFailed)
		if c10Req.DryRun {
			zz.Assert(c10Resp.DeletedCount == wantDeleted, "the dry run does not report the number of rows the predicate selects")
		} else {
			zz.Assert(allProcessed && gone == wantDeleted, "a delete that reported success left selected rows behind")
		}
		zz.ClearKnown()
		if c10Req.DryRun {
			zz.Reach("dry-run")
		} else {
			zz.Assert(c10Resp.DeletedCount == gone, "the reported deleted count differs from the number of rows that disappeared")
			zz.Reach("deleted")
		}
	}
	if c10Resp != nil && !c10Req.DryRun && c10Status != 200 {
		zz.Assert(c10Resp.DeletedCount == gone, "the reported deleted count of a partly failed delete differs from the number of rows that disappeared")
		zz.Reach("partial-failure")
	}
	zz.Reach("end")
}
