//go:build verif

package storage

import (
	"bytes"
	"context"
	"errors"
	"fmt"
	"io"
	"strings"

	zz "github.com/basekick-labs/arc/internal/zzverif"
	"github.com/rs/zerolog"
)

func c08Key(name string, maxlen int, ascii bool) string {
	n := zz.Len("len_"+name, maxlen)
	s := zz.String(name, n)
	if ascii {
		for i := 0; i < len(s); i++ {
			zz.Assume(s[i] < 0x80)
		}
	}
	return s
}

// c08Below: lexical confinement oracle — p is base itself or below base + "/", and no
// segment of p is "..".
func c08Below(p, base string) bool {
	prefix := base + "/"
	if base == "/" {
		prefix = "/"
	}
	if p != base && !strings.HasPrefix(p, prefix) {
		return false
	}
	for _, seg := range strings.Split(p, "/") {
		if seg == ".." {
			return false
		}
	}
	return true
}

// VerifC08Confine: every key either is rejected or resolves to a path inside the base.
func VerifC08Confine() {
	key := c08Key("key", zz.ParamInt("maxlen", 4), zz.ParamInt("ascii", 1) == 1)
	base := zz.Param("base", "/r/s")
	b := &LocalBackend{basePath: base, dirCache: map[string]bool{}}
	p, err := b.validatePath(key)
	if err == nil {
		zz.Assert(c08Below(p, base), "storage key resolved to a path outside the backend root")
		zz.Assert(!strings.Contains(p, "\x00"), "resolved path contains a NUL byte")
		zz.Reach("accepted")
	} else {
		zz.Reach("rejected")
	}
}

// VerifC08Atomic: Write / WriteReader / AppendReader under every crash point and injected
// I/O fault: the final path is absent, unchanged, or holds exactly the complete bytes.
func VerifC08Atomic() {
	op := zz.Param("op", "write")
	root := zz.TempPath("base")
	b, err := NewLocalBackend(root, zerolog.Nop())
	if err != nil {
		panic(err)
	}
	ctx := context.Background()
	key := "db/m/2026/01/02/03/f.parquet"
	final := root + "/" + key
	newData := []byte{zz.Byte("n0"), zz.Byte("n1"), zz.Byte("n2")}
	old := []byte{zz.Byte("o0"), zz.Byte("o1")}
	hadOld := zz.Choice("had_old", 2) == 1
	if hadOld {
		if err := b.Write(ctx, key, old); err != nil {
			panic(err)
		}
	}
	partial := []byte{newData[0]}
	if op == "append" {
		// a previous interrupted transfer left the first byte in the .part staging file
		if err := b.WriteReader(ctx, key+".x", bytes.NewReader(nil), 0); err != nil { // ensure dir exists
			panic(err)
		}
		// ... unless the staged prefix was discarded meanwhile (Delete after a checksum
		// mismatch, a staging sweep): the resumed append then has nothing to extend
		if !zz.Bool("staged_prefix_discarded") {
			zz.FSWriteFile(final+".part", partial)
		} else {
			zz.Reach("append-without-prefix")
		}
	}
	if op == "writereader" && zz.Bool("stale_part_from_an_interrupted_longer_transfer") {
		// an earlier transfer to the same key died mid-stream and left a staging file
		// that is LONGER than what is written now
		if err := b.WriteReader(ctx, key+".x", bytes.NewReader(nil), 0); err != nil { // ensure dir exists
			panic(err)
		}
		zz.FSWriteFile(final+".part", zz.Bytes("stale_part", 5))
		zz.Reach("stale-part")
	}
	// the source of a streamed write may fail after any number of bytes, with a reset or with
	// an error that wraps io.EOF (a peer that closed the connection cleanly mid-body)
	failing := op == "writereader" && zz.Bool("source_fails")
	cutAt := 0
	var cutErr error
	if failing {
		cutAt = zz.Choice("source_fails_after", len(newData))
		cutErr = errors.New("connection reset")
		if zz.Bool("source_error_wraps_eof") {
			cutErr = fmt.Errorf("stream body: %w", io.EOF)
		}
		zz.Reach("source-failed")
	}
	zz.FSCrashPoints(true)
	zz.FSFaults(true)
	var opErr error
	crashed := c08Run(func() {
		switch op {
		case "write":
			opErr = b.Write(ctx, key, newData)
		case "writereader":
			var src io.Reader = bytes.NewReader(newData)
			if failing {
				src = &c08FailingReader{b: newData[:cutAt], err: cutErr}
			}
			opErr = b.WriteReader(ctx, key, src, int64(len(newData)))
		default:
			opErr = b.AppendReader(ctx, key, bytes.NewReader(newData[1:]), int64(len(newData)-1))
		}
	})
	zz.FSCrashPoints(false)
	zz.FSFaults(false)
	got, exists := zz.FSFileBytes(final)
	isNew := exists && zz.EqBytes(got, newData)
	isOld := exists && hadOld && zz.EqBytes(got, old)
	zz.Assert(zz.Or(zz.Or(isNew, isOld), !exists && !hadOld), "final path holds something that is neither the previous content nor the complete new content")
	if failing && !crashed {
		zz.Assert(opErr != nil, "a streamed write whose source failed reported success")
	}
	if !crashed && opErr == nil {
		zz.Assert(isNew, "operation reported success but the final path does not hold the new content")
		zz.Reach("success")
	}
	if crashed {
		zz.Reach("crashed")
	}
	if !crashed && opErr != nil {
		zz.Reach("failed")
	}
}

type c08FailingReader struct {
	b   []byte
	pos int
	err error
}

func (r *c08FailingReader) Read(p []byte) (int, error) {
	if r.pos >= len(r.b) {
		return 0, r.err
	}
	n := copy(p, r.b[r.pos:])
	r.pos += n
	return n, nil
}

func c08Run(f func()) (crashed bool) {
	defer func() {
		if r := recover(); r != nil {
			crashed = true
		}
	}()
	f()
	return false
}

// VerifC08ConfinePrefixed: as VerifC08Confine, for keys that start with one of the
// classic escape prefixes (plain and NUL-disguised parent references, absolute, current
// directory) followed by a symbolic tail - long enough to name a sibling of the root that
// shares the root's name as a string prefix (/r vs /rX).
func VerifC08ConfinePrefixed() {
	prefix := []string{"", "../", ".\x00./", "..\x00/", "./", "/", "a/../../", ".\x00.\x00/"}[zz.Choice("prefix", 8)]
	key := prefix + c08Key("tail", zz.ParamInt("maxlen", 3), zz.ParamInt("ascii", 1) == 1)
	base := zz.Param("base", "/r")
	b := &LocalBackend{basePath: base, dirCache: map[string]bool{}}
	p, err := b.validatePath(key)
	if err == nil {
		zz.Assert(c08Below(p, base), "storage key resolved to a path outside the backend root")
		zz.Assert(!strings.Contains(p, "\x00"), "resolved path contains a NUL byte")
		zz.Reach("accepted")
	} else {
		zz.Reach("rejected")
	}
}
