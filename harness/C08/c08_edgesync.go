//go:build verif

package edgesync

import (
	"strings"

	zz "github.com/basekick-labs/arc/internal/zzverif"
)

// VerifC08SyncPath: a validated (spoke id, path) pair lands strictly below the spoke's
// own directory.
func VerifC08SyncPath() {
	sid := zz.String("spoke", 1+zz.Len("len_spoke", 1))
	stem := zz.String("stem", zz.Len("len_stem", zz.ParamInt("maxlen", 3)))
	if zz.ParamInt("ascii", 1) == 1 {
		for i := 0; i < len(sid); i++ {
			zz.Assume(sid[i] < 0x80)
		}
		for i := 0; i < len(stem); i++ {
			zz.Assume(stem[i] < 0x80)
		}
	}
	p := stem + ".parquet"
	if validateSpokeID(sid) != nil || validateSyncPath(p) != nil {
		zz.Reach("rejected")
		return
	}
	np := NamespacedPath(sid, p)
	zz.Assert(strings.HasPrefix(np, sid+"/"), "namespaced path escapes the spoke directory")
	zz.Assert(len(np) > len(sid)+1, "namespaced path is the spoke directory itself")
	for _, seg := range strings.Split(np, "/") {
		zz.Assert(seg != ".." && seg != "." && seg != "", "namespaced path has an empty, dot or parent segment")
	}
	sp := stagingPathFor(sid, p)
	zz.Assert(strings.HasPrefix(sp, StagingPrefix+"/"+sid+"/"), "staging path escapes the spoke's staging directory")
	zz.Reach("accepted")
}
