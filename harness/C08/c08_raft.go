//go:build verif

package raft

import (
	zz "github.com/basekick-labs/arc/internal/zzverif"
)

// VerifC08ManifestPath: an accepted manifest path is relative, has no ".." segment
// (with '/' or '\' separators), no NUL and no URL scheme.
func VerifC08ManifestPath() {
	n := zz.Len("len", zz.ParamInt("maxlen", 4))
	p := zz.String("path", n)
	if zz.ParamInt("ascii", 1) == 1 {
		for i := 0; i < len(p); i++ {
			zz.Assume(p[i] < 0x80)
		}
	}
	err := ValidateManifestPath(p)
	if err != nil {
		zz.Reach("rejected")
		return
	}
	zz.Assert(len(p) > 0, "empty path accepted")
	zz.Assert(p[0] != '/' && p[0] != '\\', "absolute path accepted")
	// segments
	start := 0
	for i := 0; i <= len(p); i++ {
		if i == len(p) || p[i] == '/' || p[i] == '\\' {
			zz.Assert(p[start:i] != "..", "path with a parent-directory segment accepted")
			start = i + 1
		}
	}
	for i := 0; i < len(p); i++ {
		zz.Assert(p[i] != 0, "path with a NUL byte accepted")
		zz.Assert(p[i] != ':', "path with a scheme or drive colon accepted")
	}
	zz.Reach("accepted")
}
