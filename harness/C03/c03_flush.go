//go:build verif

package ingest

import (
	"context"
	"strconv"
	"time"

	"github.com/basekick-labs/arc/internal/config"
	zz "github.com/basekick-labs/arc/internal/zzverif"
)

type c03File struct {
	times []int64
	ids   []int64
}

var (
	c03Files     []c03File // one per WriteParquetColumnar call, in call order
	c03PathHours []int64   // hour id of the partition time of each generateStoragePath call
)

// c03WriteParquet replaces (*ArrowWriter).WriteParquetColumnar (Arrow/Parquet encoding is
// outside the encoding): it records which rows go into the file.
func c03WriteParquet(w *ArrowWriter, ctx context.Context, measurement string, columns map[string]interface{}, validity map[string][]bool, tagColumns []string, dedupTime bool, decimalCols map[string]config.DecimalSpec) ([]byte, error) {
	f := c03File{}
	f.times = append(f.times, columns["time"].([]int64)...)
	f.ids = append(f.ids, columns["id"].([]int64)...)
	c03Files = append(c03Files, f)
	return []byte{byte(len(c03Files))}, nil
}

// c03Path replaces (*ArrowBuffer).generateStoragePath: records the partition hour.
func c03Path(b *ArrowBuffer, database, measurement string, partitionTime time.Time) string {
	c03PathHours = append(c03PathHours, HourBucketID(partitionTime.UnixMicro()))
	return database + "/" + measurement + "/file" + strconv.Itoa(len(c03PathHours))
}

// VerifC03Flush: flushPartitionedData as a unit. Every row of the merged buffer ends up
// in exactly one written file, and that file's partition hour is the row's own hour.
func VerifC03Flush() {
	n := zz.ParamInt("n", 3)
	times := c03Times(n)
	const lim = int64(9223372036854775807) / 4
	ids := make([]int64, n)
	for i := range ids {
		ids[i] = int64(i)
		zz.Assume(zz.And(times[i] > -lim, times[i] < lim))
	}
	c03Files, c03PathHours = nil, nil
	fb := zz.NewFakeBackend()
	b := &ArrowBuffer{storage: fb, defaultSortKeys: []string{"time"}}
	merged := &TypedColumnBatch{Data: map[string]interface{}{"time": times, "id": ids}}
	err := b.flushPartitionedData(context.Background(), "db/m", "db", "m", merged, n, "size", time.Now())
	zz.Assert(err == nil, "flush of a well-formed buffer failed")
	zz.Assert(len(c03Files) == len(c03PathHours), "files written and paths generated do not pair up")
	seen := make([]int, n)
	for k := range c03Files {
		f := c03Files[k]
		for r := range f.times {
			if k < len(c03PathHours) {
				zz.Assert(HourBucketID(f.times[r]) == c03PathHours[k], "row written under the partition of a different hour")
			}
			if r > 0 {
				zz.Assert(f.times[r-1] <= f.times[r], "rows of a file are not sorted by time")
			}
			for j := 0; j < n; j++ {
				hit := f.ids[r] == int64(j)
				seen[j] += zz.IteInt(hit, 1, 0)
				zz.Assert(zz.Implies(hit, f.times[r] == times[j]), "row's time changed between buffer and file")
			}
		}
	}
	for j := 0; j < n; j++ {
		zz.Assert(seen[j] == 1, "row lost or written twice")
	}
	zz.Assert(len(fb.Files) == len(c03Files), "a written file did not reach storage")
	zz.Reach("end")
}
