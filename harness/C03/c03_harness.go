//go:build verif

package ingest

import (
	zz "github.com/basekick-labs/arc/internal/zzverif"
)

// VerifC03HourBucket: HourBucketID(t) is the hour that contains t (floor), for every
// int64 microsecond timestamp whose hour bounds are representable.
func VerifC03HourBucket() {
	t := zz.Int64("t")
	const lim = int64(9223372036854775807) - 2*microPerHour
	zz.Assume(zz.And(t > -lim, t < lim))
	h := HourBucketID(t)
	zz.Assert(h*microPerHour <= t, "HourBucketID: hour start is after the timestamp")
	zz.Assert(t < (h+1)*microPerHour, "HourBucketID: timestamp is not before the next hour")
	// the partition path is built from hourIDToTime(h): it must denote that hour start
	zz.Assert(hourIDToTime(h).UnixMicro() == h*microPerHour, "hourIDToTime is not the start of the bucket hour")
	zz.Reach("end")
}

func c03Times(n int) []int64 {
	ts := make([]int64, n)
	for i := range ts {
		ts[i] = zz.Int64("t")
	}
	return ts
}

// VerifC03GroupByHour: the buckets' index lists partition 0..n-1, each index sits in
// the bucket of its own hour, per-bucket and global min/max are exact.
func VerifC03GroupByHour() {
	n := zz.ParamInt("n", 3)
	times := c03Times(n)
	const lim = int64(9223372036854775807) - 2*microPerHour
	for _, t := range times {
		zz.Assume(zz.And(t > -lim, t < lim))
	}
	buckets, gmin, gmax, err := groupByHour(times)
	zz.Assert(err == nil, "groupByHour failed on a non-empty column")
	seen := make([]int, n)
	for id, b := range buckets {
		zz.Assert(b.hourID == id, "bucket stored under a different hour id")
		for _, ix := range b.indices {
			zz.Assert(zz.And(ix >= 0, ix < n), "row index out of range")
			seen[ix]++
			t := times[ix]
			zz.Assert(HourBucketID(t) == id, "row placed in the bucket of another hour")
			zz.Assert(zz.And(b.minTime <= t, t <= b.maxTime), "bucket min/max does not cover its row")
			zz.Assert(zz.And(gmin <= t, t <= gmax), "global min/max does not cover a row")
		}
		// min and max are attained
		hasMin, hasMax := false, false
		for _, ix := range b.indices {
			hasMin = zz.Or(hasMin, times[ix] == b.minTime)
			hasMax = zz.Or(hasMax, times[ix] == b.maxTime)
		}
		zz.Assert(zz.And(hasMin, hasMax), "bucket min/max is not a timestamp of the bucket")
	}
	for i := 0; i < n; i++ {
		zz.Assert(seen[i] == 1, "row lost or duplicated across hour buckets")
	}
	zz.Reach("end")
}

func c03CheckPerm(times []int64, perm []int, stable bool) {
	n := len(times)
	if perm == nil {
		for i := 1; i < n; i++ {
			zz.Assert(times[i-1] <= times[i], "nil (identity) permutation returned for unsorted input")
		}
		return
	}
	zz.Assert(len(perm) == n, "permutation has the wrong length")
	if len(perm) != n {
		return
	}
	cnt := make([]int, n)
	for i := 0; i < n; i++ {
		p := perm[i]
		zz.Assert(zz.And(p >= 0, p < n), "permutation entry out of range")
		for j := 0; j < n; j++ {
			cnt[j] += zz.IteInt(p == j, 1, 0)
		}
	}
	for j := 0; j < n; j++ {
		zz.Assert(cnt[j] == 1, "not a permutation: a row index is missing or repeated")
	}
	for i := 1; i < n; i++ {
		a, b := times[perm[i-1]], times[perm[i]]
		zz.Assert(a <= b, "times not ascending under the permutation")
		if stable {
			zz.Assert(zz.Implies(a == b, perm[i-1] < perm[i]), "radix permutation is not stable for equal timestamps")
		}
	}
}

// VerifC03PermuteSort: permuteByTime / permuteByTimeSort on n arbitrary timestamps.
func VerifC03PermuteSort() {
	n := zz.ParamInt("n", 3)
	times := c03Times(n)
	c03CheckPerm(times, permuteByTime(times), false)
	if n > 0 {
		c03CheckPerm(times, permuteByTimeSort(times), false)
	}
	zz.Reach("end")
}

// VerifC03Radix: the LSD radix path driven directly (production calls it for n >= 4096;
// the function has no such precondition). Every timestamp is drawn by the solver from a
// pool that varies in the sign byte, a middle byte and the low byte and contains
// duplicates, negatives and the int64 extremes, so the sign-bit bias, the
// skip-constant-byte branch and stability are all exercised.
func VerifC03Radix() {
	n := zz.ParamInt("n", 3)
	times := make([]int64, n)
	for i := range times {
		switch zz.ParamInt("pool", 0) {
		case 0:
			times[i] = zz.OneOfInt64("t", 0x0102030405060708, 0x0102030405060709, -0x0102030405060708, 0x0102030405060708+1<<32)
		case 1:
			times[i] = zz.OneOfInt64("t", -1, 0, 1, -9223372036854775808, 9223372036854775807)
		default:
			times[i] = zz.OneOfInt64("t", 1700000000000255, 1700000000000256, 1700000003600000, -1700000000000000)
		}
	}
	c03CheckPerm(times, radixPermuteByTime(times), true)
	zz.Reach("end")
}

// VerifC03Slice: slicing/permuting a typed batch by an index list moves every cell
// (value and validity) of every column from row indices[i] to row i.
func VerifC03Slice() {
	n := zz.ParamInt("n", 3)
	k := zz.ParamInt("k", 2)
	ints := make([]int64, n)
	flts := make([]float64, n)
	strs := make([]string, n)
	bools := make([]bool, n)
	valid := make([]bool, n)
	for i := 0; i < n; i++ {
		ints[i] = zz.Int64("i")
		flts[i] = zz.Float64("f")
		strs[i] = zz.OneOf("s", "", "a", "bb")
		bools[i] = zz.Bool("b")
		valid[i] = zz.Bool("v")
	}
	idx := make([]int, k)
	for i := range idx {
		idx[i] = zz.Int("ix")
		zz.Assume(zz.And(idx[i] >= 0, idx[i] < n))
	}
	batch := &TypedColumnBatch{
		Data:     map[string]interface{}{"time": ints, "f": flts, "s": strs, "b": bools},
		Validity: map[string][]bool{"f": valid, "s": nil},
	}
	out := sliceTypedColumnBatchByIndices(batch, idx)
	oi := out.Data["time"].([]int64)
	of := out.Data["f"].([]float64)
	os := out.Data["s"].([]string)
	ob := out.Data["b"].([]bool)
	ov := out.Validity["f"]
	zz.Assert(zz.And(len(oi) == k, len(of) == k), "sliced column has the wrong row count")
	zz.Assert(zz.And(len(os) == k, len(ob) == k), "sliced column has the wrong row count")
	zz.Assert(len(ov) == k, "sliced validity has the wrong row count")
	zz.Assert(out.Validity["s"] == nil, "nil (all-valid) validity entry not preserved")
	for i := 0; i < k; i++ {
		for j := 0; j < n; j++ {
			hit := idx[i] == j
			zz.Assert(zz.Implies(hit, oi[i] == ints[j]), "int64 cell mixed up")
			zz.Assert(zz.Implies(hit, zz.Or(of[i] == flts[j], zz.And(of[i] != of[i], flts[j] != flts[j]))), "float64 cell mixed up")
			zz.Assert(zz.Implies(hit, zz.EqStr(os[i], strs[j])), "string cell mixed up")
			zz.Assert(zz.Implies(hit, ob[i] == bools[j]), "bool cell mixed up")
			zz.Assert(zz.Implies(hit, ov[i] == valid[j]), "validity bit mixed up")
		}
	}
	// applyPermutation on each column type
	pi := applyPermutation(ints, idx).([]int64)
	ps := applyPermutation(strs, idx).([]string)
	for i := 0; i < k; i++ {
		for j := 0; j < n; j++ {
			zz.Assert(zz.Implies(idx[i] == j, pi[i] == ints[j]), "applyPermutation: int64 cell mixed up")
			zz.Assert(zz.Implies(idx[i] == j, zz.EqStr(ps[i], strs[j])), "applyPermutation: string cell mixed up")
		}
	}
	zz.Reach("end")
}
