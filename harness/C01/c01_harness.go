//go:build verif

package ingest

import (
	"strconv"

	zz "github.com/basekick-labs/arc/internal/zzverif"
)

// ---- reference ENCODER, written from the InfluxDB line-protocol escaping rules ----
// measurement: escape ',' and ' ' ; tag key, tag value, field key: escape ',', '=', ' ' ;
// string field value: escape '"' and '\'. A literal backslash in a name is written `\\`
// (the rules do not require it but accept it, and it is the only unambiguous spelling).

func c01Esc(s []byte, kind int) []byte {
	var out []byte
	for _, c := range s {
		switch kind {
		case 0: // measurement
			if c == ',' || c == ' ' || c == '\\' {
				out = append(out, '\\')
			}
		case 1: // tag key / tag value / field key
			if c == ',' || c == '=' || c == ' ' || c == '\\' {
				out = append(out, '\\')
			}
		case 2: // string field value
			if c == '"' || c == '\\' {
				out = append(out, '\\')
			}
		}
		out = append(out, c)
	}
	return out
}

// c01Comp: a component of the point. In focus: 1..maxlen symbolic printable-ASCII bytes;
// out of focus: the fixed default.
func c01Comp(name, def string, focus string, maxlen int, allowBackslash bool) []byte {
	if !c01In(focus, name) {
		return []byte(def)
	}
	n := 1 + zz.Len("len_"+name, maxlen-1)
	b := zz.Bytes(name, n)
	for i := range b {
		zz.Assume(zz.And(b[i] >= 0x20, b[i] <= 0x7e))
		if !allowBackslash {
			zz.Assume(b[i] != '\\')
		}
	}
	return b
}

func c01In(focus, name string) bool {
	for i := 0; i+len(name) <= len(focus); i++ {
		if focus[i:i+len(name)] == name && (i+len(name) == len(focus) || focus[i+len(name)] == ',') && (i == 0 || focus[i-1] == ',') {
			return true
		}
	}
	return false
}

// VerifC01Point: one point built from the grammar, parsed by the real parser, compared
// component-wise with what the escaping rules denote.
func VerifC01Point() {
	focus := zz.Param("focus", "meas")
	maxlen := zz.ParamInt("maxlen", 2)
	meas := c01Comp("meas", "m", focus, maxlen, true)
	tk := c01Comp("tagk", "k", focus, maxlen, true)
	tv := c01Comp("tagv", "v", focus, maxlen, true)
	fk := c01Comp("fldk", "f", focus, maxlen, true)
	// generator exclusions of the property: no comment line, reserved names
	zz.Assume(meas[0] != '#')
	zz.Assume(!zz.EqBytes(fk, tk))
	zz.Assume(!zz.EqBytes(fk, []byte("time")))
	zz.Assume(!zz.EqBytes(tk, []byte("time")))
	// a point must not start or end with a raw space after escaping: escaped spaces are fine

	// field value
	kind := zz.Param("field", "int")
	var ftext []byte
	var wantInt int64
	var wantUint uint64
	var wantStr []byte
	var wantBool bool
	var wantFloatText string
	switch kind {
	case "int":
		v := []int64{0, 7, -7, 42, -9223372036854775808, 9223372036854775807}[zz.Choice("ival", 6)]
		wantInt = v
		ftext = append([]byte(strconv.FormatInt(v, 10)), 'i')
	case "uint":
		v := []uint64{0, 9, 18446744073709551615}[zz.Choice("uval", 3)]
		wantUint = v
		ftext = append([]byte(strconv.FormatUint(v, 10)), 'u')
	case "float":
		wantFloatText = []string{"1.5", "-0.25", "1e3", "42"}[zz.Choice("fval", 4)]
		ftext = []byte(wantFloatText)
	case "bool":
		sp := []string{"t", "T", "true", "True", "TRUE", "f", "F", "false", "False", "FALSE"}
		k := zz.Choice("bval", len(sp))
		wantBool = k < 5
		ftext = []byte(sp[k])
	default: // string
		n := zz.Len("len_sval", maxlen)
		wantStr = zz.Bytes("sval", n)
		for i := range wantStr {
			zz.Assume(zz.And(wantStr[i] >= 0x20, wantStr[i] <= 0x7e))
		}
		ftext = append([]byte{'"'}, c01Esc(wantStr, 2)...)
		ftext = append(ftext, '"')
	}

	// timestamp and precision
	precision := []string{"ns", "us", "ms", "s"}[zz.Choice("precision", 4)]
	hasTS := zz.Choice("has_ts", 2) == 1
	var rawTS int64
	line := append([]byte(nil), c01Esc(meas, 0)...)
	line = append(line, ',')
	line = append(line, c01Esc(tk, 1)...)
	line = append(line, '=')
	line = append(line, c01Esc(tv, 1)...)
	line = append(line, ' ')
	lead := zz.ParamInt("lead_field", 0)
	if lead == 1 {
		// the focused field is the SECOND field of the point: a fixed field a=1i precedes it
		zz.Assume(!zz.EqBytes(fk, []byte("a")))
		line = append(line, 'a', '=', '1', 'i', ',')
	}
	line = append(line, c01Esc(fk, 1)...)
	line = append(line, '=')
	line = append(line, ftext...)
	if hasTS {
		rawTS = []int64{0, 1609459200123456789, -1500, 9223372036854775807, -9223372036854775808, 9223372036854775}[zz.Choice("ts", 6)]
		line = append(line, ' ')
		line = append(line, strconv.FormatInt(rawTS, 10)...)
	}

	p := NewLineProtocolParser()
	recs := p.ParseBatchWithPrecision(line, precision)

	// listed findings (each with the exact input class that triggers it)
	hasEq := false
	hasQuote := false
	for _, c := range tk {
		hasEq = zz.Or(hasEq, c == '=')
	}
	for _, c := range fk {
		hasEq = zz.Or(hasEq, c == '=')
	}
	for _, s := range [][]byte{meas, tk, tv, fk} {
		for _, c := range s {
			hasQuote = zz.Or(hasQuote, c == '"')
		}
	}
	zz.Known("C01-escaped-equals-in-key", hasEq)
	zz.Known("C01-quote-in-names-toggles-quoting", hasQuote)

	zz.Assert(len(recs) == 1, "a valid point was dropped or split into several records")
	if len(recs) != 1 {
		return
	}
	r := recs[0]
	zz.Assert(zz.EqStr(r.Measurement, string(meas)), "measurement differs from what the escaping rules denote")
	zz.Assert(len(r.Tags) == 1, "tag set has the wrong size")
	gotTV, okT := r.Tags[string(tk)]
	zz.Assert(okT, "tag key differs from what the escaping rules denote")
	zz.Assert(zz.Implies(okT, zz.EqStr(gotTV, string(tv))), "tag value differs from what the escaping rules denote")
	zz.Assert(len(r.Fields) == 1+lead, "field set has the wrong size")
	if lead == 1 {
		lv, lok := r.Fields["a"].(int64)
		zz.Assert(lok && lv == 1, "the first field of a two-field point changed")
	}
	gotF, okF := r.Fields[string(fk)]
	zz.Assert(okF, "field key differs from what the escaping rules denote")
	if okF {
		switch kind {
		case "int":
			v, ok := gotF.(int64)
			zz.Assert(ok, "integer field not stored as int64")
			zz.Assert(zz.Implies(ok, v == wantInt), "integer field value changed")
		case "uint":
			v, ok := gotF.(uint64)
			zz.Assert(ok, "unsigned field not stored as uint64")
			zz.Assert(zz.Implies(ok, v == wantUint), "unsigned field value changed")
		case "float":
			v, ok := gotF.(float64)
			want, _ := strconv.ParseFloat(wantFloatText, 64)
			zz.Assert(ok, "float field not stored as float64")
			zz.Assert(zz.Implies(ok, v == want), "float field value changed")
		case "bool":
			v, ok := gotF.(bool)
			zz.Assert(ok, "boolean field not stored as bool")
			zz.Assert(zz.Implies(ok, v == wantBool), "boolean field value changed")
		default:
			v, ok := gotF.(string)
			zz.Assert(ok, "string field not stored as string")
			zz.Assert(zz.Implies(ok, zz.EqStr(v, string(wantStr))), "string field value differs from what the escaping rules denote")
		}
	}
	if hasTS {
		switch precision {
		case "us":
			zz.Assert(r.Timestamp == rawTS, "us timestamp changed")
		case "ms":
			if rawTS <= 9223372036854775 && rawTS >= -9223372036854775 {
				zz.Assert(r.Timestamp == rawTS*1000, "ms timestamp not converted exactly")
			}
		case "s":
			if rawTS <= 9223372036854 && rawTS >= -9223372036854 {
				zz.Assert(r.Timestamp == rawTS*1000000, "s timestamp not converted exactly")
			}
		default:
			zz.Assert(r.Timestamp == rawTS/1000, "ns timestamp not divided by 1000")
		}
	}
	zz.Reach("end")
}

// VerifC01LongLine: a batch of three points whose middle point carries a long string field
// (the length is a parameter, 70000 bytes by default: beyond the 64 KiB token limit of a
// default bufio.Scanner). Every point must come back, the long value intact, and the points
// after it as well. Concrete execution of the real batch splitter and parser on one large
// input: sizes are not something the solver varies here.
func VerifC01LongLine() {
	n := zz.ParamInt("long_bytes", 70000)
	long := make([]byte, n)
	for i := range long {
		long[i] = 'a' + byte(i%26)
	}
	body := []byte("cpu,host=a v=1i 1700000000000000000\n")
	body = append(body, []byte("logs,host=a msg=\"")...)
	body = append(body, long...)
	body = append(body, []byte("\" 1700000001000000000\n")...)
	body = append(body, []byte("mem,host=a v=2i 1700000002000000000\n")...)
	recs := NewLineProtocolParser().ParseBatchWithPrecision(body, "ns")
	zz.Assert(len(recs) == 3, "a batch with one long line lost points")
	if len(recs) == 3 {
		zz.Assert(recs[0].Measurement == "cpu" && recs[1].Measurement == "logs" && recs[2].Measurement == "mem", "points out of order or renamed")
		s, ok := recs[1].Fields["msg"].(string)
		zz.Assert(ok && len(s) == n && s[0] == 'a' && s[n-1] == 'a'+byte((n-1)%26), "the long string value changed")
	}
	zz.Reach("end")
}
