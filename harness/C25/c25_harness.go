//go:build verif

package filereplication

import (
	"context"
	"errors"
	"fmt"
	"hash"
	"io"

	"github.com/basekick-labs/arc/internal/cluster/raft"
	"github.com/basekick-labs/arc/internal/storage"
	zz "github.com/basekick-labs/arc/internal/zzverif"
	"github.com/rs/zerolog"
)

var c25Good, c25Bad []byte // the manifest's bytes / bytes that fail the hash check (symbolic)

// c25Fetcher: a peer connection. Per attempt the solver chooses how the transfer goes:
// complete and verified, cut by a transport error after k bytes, or complete but failing
// the SHA-256 check (corrupt bytes). As FetchClient (io.CopyN + hash check) it returns a nil
// error only after every tail byte was written and verified.
type c25Fetcher struct{ calls int }

func (f *c25Fetcher) Fetch(ctx context.Context, peerAddr string, entry *raft.FileEntry, dst io.Writer, byteOffset int64, prefixHasher hash.Hash) (int64, error) {
	f.calls++
	tag := "attempt" + string(rune('0'+f.calls))
	size := int64(len(c25Good))
	if byteOffset < 0 || byteOffset >= size {
		return 0, ErrBadOffset
	}
	switch zz.Choice("transfer_"+tag, 3) {
	case 0: // complete, hash verified
		n, err := dst.Write(c25Good[byteOffset:])
		return int64(n), err
	case 1: // transport error after k tail bytes
		k := int64(zz.Choice("cut_"+tag, int(size-byteOffset)))
		n, _ := dst.Write(c25Good[byteOffset : byteOffset+k])
		if zz.Bool("cut_is_graceful_close_" + tag) {
			// the peer closed the connection cleanly mid-body: io.CopyN reports io.EOF
			// and FetchClient wraps it ("stream body: EOF ...")
			return int64(n), fmt.Errorf("stream body: %w (wrote %d of %d tail bytes)", io.EOF, n, size-byteOffset)
		}
		return int64(n), errors.New("connection reset")
	default: // all bytes arrive but they are not the manifest's bytes
		n, _ := dst.Write(c25Bad[byteOffset:])
		_ = n
		return int64(n), ErrChecksumMismatch
	}
}

type c25Peers struct{}

func (c25Peers) ResolvePeers(originNodeID, path string) []string { return []string{"peer1:9100"} }

// c25Hash replaces sha256.New under the engine (the prefix hash only feeds the fetcher,
// which is the model above).
type c25Hash struct{}

func (c25Hash) Write(p []byte) (int, error) { return len(p), nil }
func (c25Hash) Sum(b []byte) []byte         { return b }
func (c25Hash) Reset()                      {}
func (c25Hash) Size() int                   { return 32 }
func (c25Hash) BlockSize() int              { return 64 }
func c25NewHash() hash.Hash                  { return c25Hash{} }

// VerifC25Pull: one file is pulled by the real Puller.processEntry / pullOnce /
// writeFileTail / tryResumeFromPartial into the real LocalBackend (WriteReader,
// AppendReader, StatFile, Delete) on the file-system model, over every course the
// transfers of up to `attempts` attempts can take, and - when `again` - a second
// processEntry for the same entry afterwards (re-enqueue by the next FSM callback).
//   - the final path never holds anything but the complete, verified file
//   - the puller counts the file as present (pulled / skipped-local) only if the final
//     path holds it
func VerifC25Pull() {
	c25Good = zz.Bytes("content", 4)
	c25Bad = zz.Bytes("corrupt_content", 4)
	zz.Assume(!zz.EqBytes(c25Good, c25Bad))
	root := zz.TempPath("data")
	be, err := storage.NewLocalBackend(root, zerolog.Nop())
	zz.Assert(err == nil, "backend")
	entry := &raft.FileEntry{Path: "db/m/f.parquet", SizeBytes: int64(len(c25Good)), OriginNodeID: "w1", SHA256: "x"}
	p := &Puller{cfg: Config{SelfNodeID: "r1", Backend: be, Fetcher: &c25Fetcher{}, PeerResolver: c25Peers{},
		RetryMaxAttempts: zz.ParamInt("attempts", 2), FetchTimeout: 1, Logger: zerolog.Nop()}, ctx: context.Background()}
	final := root + "/db/m/f.parquet"
	rounds := 1
	if zz.ParamInt("again", 1) == 1 {
		rounds = 2
	}
	for r := 0; r < rounds; r++ {
		before := p.totalPulled.Load() + p.totalSkippedLocal.Load()
		p.processEntry(zerolog.Nop(), entry)
		counted := p.totalPulled.Load()+p.totalSkippedLocal.Load() > before
		got, ok := zz.FSFileBytes(final)
		if ok {
			zz.Assert(zz.EqBytes(got, c25Good), "the final path holds a file that is not the complete verified file")
		}
		if counted {
			zz.Assert(ok, "the puller counts the file as present although nothing is at its final path")
		}
	}
	zz.Reach("end")
}
