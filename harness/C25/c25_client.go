//go:build verif

package filereplication

import (
	"context"
	"crypto/tls"
	"errors"
	"hash"
	"io"
	"net"
	"time"

	"github.com/basekick-labs/arc/internal/cluster/protocol"
	"github.com/basekick-labs/arc/internal/cluster/raft"
	zz "github.com/basekick-labs/arc/internal/zzverif"
)

// ---- the peer: one connection that answers with an arbitrary ack header and body ----

type c25Conn struct {
	body    []byte
	pos     int
	endsErr bool // the stream ends with a reset instead of a clean EOF
}

func (c *c25Conn) Read(p []byte) (int, error) {
	if c.pos >= len(c.body) {
		if c.endsErr {
			return 0, errors.New("connection reset by peer")
		}
		return 0, io.EOF
	}
	n := copy(p, c.body[c.pos:])
	c.pos += n
	return n, nil
}
func (c *c25Conn) Write(p []byte) (int, error)        { return len(p), nil }
func (c *c25Conn) Close() error                       { return nil }
func (c *c25Conn) LocalAddr() net.Addr                { return nil }
func (c *c25Conn) RemoteAddr() net.Addr               { return nil }
func (c *c25Conn) SetDeadline(t time.Time) error      { return nil }
func (c *c25Conn) SetReadDeadline(t time.Time) error  { return nil }
func (c *c25Conn) SetWriteDeadline(t time.Time) error { return nil }

var (
	c25TheConn *c25Conn
	c25TheAck  *protocol.FetchFileAckHeader
)

func c25Dial(network, addr string, timeout time.Duration, tlsCfg *tls.Config) (net.Conn, error) {
	return c25TheConn, nil
}
func c25Nonce() (string, error) { return "nonce", nil }
func c25ReceiveAck(conn net.Conn, timeout time.Duration) (*protocol.Message, error) {
	return &protocol.Message{Type: protocol.MsgFetchFileAck, Payload: c25TheAck}, nil
}

// c25AccHash stands for SHA-256: it remembers what was written and its digest is the
// manifest's digest exactly when those bytes are the manifest's bytes (collision freedom
// is the assumption).
type c25AccHash struct{ got []byte }

func (h *c25AccHash) Write(p []byte) (int, error) { h.got = append(h.got, p...); return len(p), nil }
func (h *c25AccHash) Sum(b []byte) []byte {
	fill := byte(0x22)
	if zz.EqBytes(h.got, c25Good) {
		fill = 0x11
	}
	for i := 0; i < 32; i++ {
		b = append(b, fill)
	}
	return b
}
func (h *c25AccHash) Reset()         { h.got = nil }
func (h *c25AccHash) Size() int      { return 32 }
func (h *c25AccHash) BlockSize() int { return 64 }
func c25NewAccHash() hash.Hash       { return &c25AccHash{} }

const c25GoodDigest = "1111111111111111111111111111111111111111111111111111111111111111"

type c25Sink struct{ got []byte }

func (s *c25Sink) Write(p []byte) (int, error) { s.got = append(s.got, p...); return len(p), nil }

// VerifC25FetchClient: the real FetchClient.Fetch against an arbitrary peer. The puller
// relies on this contract (the `pull` run assumes it of its Fetcher model):
//   - a nil error only after exactly the tail bytes [byteOffset, size) of the manifest's
//     file were written to dst, the whole file's digest verified
//   - on any error other than a checksum mismatch or a rejected offset (both make the
//     puller delete the local file) fewer bytes than the requested tail reached dst, so a
//     kept partial file is never as long as the complete file
//   - never more bytes than the requested tail
func VerifC25FetchClient() {
	c25Good = zz.Bytes("content", 4)
	size := int64(4)
	off := int64(zz.Choice("byte_offset", 4))
	var prefix hash.Hash
	if off > 0 {
		// what tryResumeFromPartial hashed: the bytes of the local partial file, whatever
		// they are
		have := zz.Bytes("local_partial", 3)[:off]
		h := &c25AccHash{}
		h.Write(have)
		prefix = h
	}
	ack := &protocol.FetchFileAckHeader{Status: "ok", SHA256: c25GoodDigest}
	switch zz.Choice("ack_status", 4) {
	case 1:
		ack.Status, ack.Code, ack.Error = "error", protocol.AckCodeBadOffset, "bad offset"
	case 2:
		ack.Status, ack.Code, ack.Error = "error", protocol.AckCodeNotFound, "not found"
	case 3:
		ack.Status, ack.Error = "error", "backend unavailable"
	}
	ack.ByteOffset = off + int64(zz.Choice("ack_offset_delta", 2))
	ack.SizeBytes = int64(zz.Choice("ack_size", 8)) - 1 // -1..6
	if zz.Bool("ack_other_hash") {
		ack.SHA256 = "2222222222222222222222222222222222222222222222222222222222222222"
	}
	c25TheAck = ack
	served := zz.Bytes("served_body", 6)
	c25TheConn = &c25Conn{body: served[:zz.Choice("served_len", 7)], endsErr: zz.Bool("stream_ends_with_reset")}
	entry := &raft.FileEntry{Path: "db/m/f.parquet", SizeBytes: size, OriginNodeID: "w1", SHA256: c25GoodDigest}
	fc := &FetchClient{SelfNodeID: "r1", ClusterName: "c", SharedSecret: "s", DialTimeout: time.Second, ResponseHeaderTimeout: time.Second}
	sink := &c25Sink{}
	written, err := fc.Fetch(context.Background(), "peer1:9100", entry, sink, off, prefix)
	tail := size - off
	zz.Assert(int64(len(sink.got)) <= tail, "the fetch client wrote more bytes than the requested tail")
	if err == nil {
		zz.Assert(written == tail && int64(len(sink.got)) == tail && zz.EqBytes(sink.got, c25Good[off:]),
			"Fetch reported success although dst did not receive exactly the verified tail of the file")
		zz.Reach("verified")
	} else if errors.Is(err, ErrChecksumMismatch) {
		zz.Reach("checksum-mismatch")
	} else if errors.Is(err, ErrBadOffset) {
		zz.Reach("bad-offset")
	} else {
		zz.Assert(int64(len(sink.got)) < tail, "a transfer that failed without a checksum verdict left as many bytes as the complete file has")
		if len(sink.got) > 0 {
			zz.Reach("short-body")
		}
	}
	zz.Reach("end")
}
