//go:build verif

package pruning

import (
	"context"
	"path/filepath"
	"time"

	zz "github.com/basekick-labs/arc/internal/zzverif"
	"github.com/rs/zerolog"
)

// c18HourPath / c18DayPath: the partition globs under which a row with timestamp t is
// stored (hour partition; day-level file after daily compaction), written with the same
// layout the flush and compaction paths use: <base>/<db>/<m>/YYYY/MM/DD[/HH]/*.parquet.
func c18HourPath(base, db, m string, t time.Time, remote bool) string {
	y, mo, d, h := t.Format("2006"), t.Format("01"), t.Format("02"), t.Format("15")
	if remote {
		return base + "/" + db + "/" + m + "/" + y + "/" + mo + "/" + d + "/" + h + "/*.parquet"
	}
	return filepath.Join(base, db, m, y, mo, d, h, "*.parquet")
}

func c18DayPath(base, db, m string, t time.Time, remote bool) string {
	y, mo, d := t.Format("2006"), t.Format("01"), t.Format("02")
	if remote {
		return base + "/" + db + "/" + m + "/" + y + "/" + mo + "/" + d + "/*.parquet"
	}
	return filepath.Join(base, db, m, y, mo, d, "*.parquet")
}

// VerifC18Paths: for every range the extractor can hand over (End inclusive for
// `time <= '...'`, BETWEEN and relative bounds, exclusive for `time < '...'`) and every
// instant t in it, GeneratePartitionPaths returns nil (caller falls back to the unpruned
// glob) or a list that contains t's hour partition and t's day partition.
func VerifC18Paths() {
	maxSpanH := int64(zz.ParamInt("span_h", 3))
	zz.Unwind(int(maxSpanH) + 3)
	remote := zz.Bool("remote")
	base := "/data"
	if remote {
		base = "s3://bkt"
	}
	start := zz.Time("start")
	end := zz.Time("end")
	t := zz.Time("t")
	lo := time.Date(1970, 1, 1, 0, 0, 0, 0, time.UTC)
	hi := time.Date(9999, 1, 1, 0, 0, 0, 0, time.UTC)
	// data exists from the epoch on (the pruner's documented floor); starts before the
	// epoch are clamped by the code under test and are included here
	earliest := time.Date(1969, 12, 31, 0, 0, 0, 0, time.UTC)
	zz.Assume(!start.Before(earliest) && end.Before(hi) && !end.Before(start))
	zz.Assume(end.Sub(start) <= time.Duration(maxSpanH)*time.Hour)
	incl := zz.Bool("end_inclusive")
	zz.Assume(!t.Before(start) && !t.Before(lo))
	if incl {
		zz.Assume(!t.After(end))
	} else {
		zz.Assume(t.Before(end))
	}

	p := NewPartitionPruner(zerolog.Nop())
	paths := p.GeneratePartitionPaths(context.Background(), base, "db", "cpu", &TimeRange{Start: start, End: end, EndInclusive: incl})
	if paths == nil {
		zz.Reach("fallback")
		return
	}
	wantH := c18HourPath(base, "db", "cpu", t, remote)
	wantD := c18DayPath(base, "db", "cpu", t, remote)
	foundH, foundD := false, false
	for _, q := range paths {
		foundH = zz.Or(foundH, zz.EqStr(q, wantH))
		foundD = zz.Or(foundD, zz.EqStr(q, wantD))
	}
	zz.Assert(foundH, "hour partition of an instant inside the query's time range is pruned away")
	zz.Assert(foundD, "day partition (daily compacted file) of an instant inside the query's time range is pruned away")
	zz.Reach("end")
}

var c18Literals = []string{
	"2024-03-15T23:00:00Z",
	"2024-03-15T23:00:00-02:00",
	"2024-03-15T23:30:00+05:30",
	"2024-03-15T23:00:00.5+01:00",
	"2024-03-15 23:00:00",
	"2024-03-15 23:00",
	"2024-03-15",
	"2024/03/15 23:00:00",
	"2024/03/15",
	"not a time",
}

// VerifC18Literal: every kind of time literal the extractor accepts (RFC 3339 with Z, with
// a negative / positive / half-hour offset, with fractions; the zone-less date and
// date-time spellings) goes through the real parseDateTime. Partition directories are laid
// out in UTC and GeneratePartitionPaths formats a bound from its own wall clock, so the
// value handed on must show the UTC wall clock of the instant the literal denotes; then the
// real GeneratePartitionPaths over [t, t+2h] must contain the UTC hour partition of t.
func VerifC18Literal() {
	lit := c18Literals[zz.Choice("literal", len(c18Literals))]
	t, err := parseDateTime(lit)
	if err != nil {
		zz.Reach("rejected")
		return
	}
	ref, rerr := time.Parse(time.RFC3339Nano, lit)
	if rerr == nil {
		zz.Assert(t.Equal(ref), "an RFC 3339 literal was parsed to another instant")
	}
	zz.Assert(t.Format("2006/01/02/15") == t.UTC().Format("2006/01/02/15"), "a parsed time literal carries a non-UTC wall clock: partition directories would be computed in the literal's zone")
	p := NewPartitionPruner(zerolog.Nop())
	paths := p.GeneratePartitionPaths(context.Background(), "/data", "db", "cpu", &TimeRange{Start: t, End: t.Add(2 * time.Hour)})
	if paths != nil {
		want := c18HourPath("/data", "db", "cpu", t.UTC(), false)
		found := false
		for _, x := range paths {
			if x == want {
				found = true
			}
		}
		zz.Assert(found, "the hour partition of the literal's instant (UTC layout) is not among the pruned paths")
	}
	zz.Reach("accepted")
}
