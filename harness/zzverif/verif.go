// Package zzverif is the harness API of the /verif symbolic executor.
//
// Under the engine (gosym) every function below is intercepted: Int64, Bytes, …
// return fresh SMT variables, Assume/Assert add to / query the path condition.
// The bodies here are the NATIVE semantics used when a solver counterexample is
// replayed as an ordinary Go test: values come from the JSON file named by
// $VERIF_REPLAY, and a failed Assert is reported as the reproduction.
//
// This file is never committed to the repository; it is injected with
// -overlay (go test) / packages.Config.Overlay (engine).
package zzverif

import (
	"context"
	"encoding/json"
	"fmt"
	"io"
	"os"
	"sort"
	"strconv"
	"strings"
	"sync"
	"time"
)

type replayFile struct {
	Inputs map[string]string `json:"inputs"`
	Params map[string]string `json:"params"`
}

var (
	rf      replayFile
	loaded  bool
	seq     = map[string]int{}
	Failed  []string
	assumed bool
)

type assumeFailed struct{}
type crashSignal struct{}

func load() {
	if loaded {
		return
	}
	loaded = true
	rf.Inputs = map[string]string{}
	rf.Params = map[string]string{}
	p := os.Getenv("VERIF_REPLAY")
	if p == "" {
		return
	}
	b, err := os.ReadFile(p)
	if err != nil {
		panic(err)
	}
	if err := json.Unmarshal(b, &rf); err != nil {
		panic(err)
	}
}

func sanitize(s string) string {
	var sb strings.Builder
	for _, r := range s {
		if (r >= 'a' && r <= 'z') || (r >= 'A' && r <= 'Z') || (r >= '0' && r <= '9') || r == '_' || r == '.' {
			sb.WriteRune(r)
		} else {
			sb.WriteByte('_')
		}
	}
	if sb.Len() == 0 {
		return "v"
	}
	return sb.String()
}

func raw(name string) (string, bool) {
	load()
	n := seq[name]
	seq[name] = n + 1
	key := name
	if n > 0 {
		key = fmt.Sprintf("%s!%d", name, n)
	}
	v, ok := rf.Inputs[key]
	return v, ok
}

func Int64(name string) int64 {
	v, ok := raw(name)
	if !ok || v == "?" {
		return 0
	}
	i, err := strconv.ParseInt(v, 10, 64)
	if err != nil {
		u, _ := strconv.ParseUint(v, 10, 64)
		return int64(u)
	}
	return i
}
func Int(name string) int       { return int(Int64(name)) }
func Int32(name string) int32   { return int32(Int64(name)) }
func Uint32(name string) uint32 { return uint32(Int64(name)) }
func Uint64(name string) uint64 {
	v, ok := raw(name)
	if !ok || v == "?" {
		return 0
	}
	u, err := strconv.ParseUint(v, 10, 64)
	if err != nil {
		i, _ := strconv.ParseInt(v, 10, 64)
		return uint64(i)
	}
	return u
}
func Byte(name string) byte { return byte(Int64(name)) }
func Bool(name string) bool { v, _ := raw(name); return v == "true" }
func Float64(name string) float64 {
	v, _ := raw(name)
	f, _ := strconv.ParseFloat(v, 64)
	return f
}
func Bytes(name string, n int) []byte {
	v, ok := raw(name)
	b := make([]byte, n)
	if ok {
		s, err := strconv.Unquote(v)
		if err == nil {
			copy(b, s)
		}
	}
	return b
}
func String(name string, n int) string { return string(Bytes(name, n)) }
func Len(name string, max int) int     { return int(Int64(name)) }
func Choice(name string, n int) int    { return int(Int64(name)) }
func SymChoice(name string, n int) int { return int(Int64(name)) }
func OneOf(name string, vals ...string) string {
	if len(vals) == 1 {
		return vals[0]
	}
	i := int(Int64(name))
	if i < 0 || i >= len(vals) {
		return vals[0]
	}
	return vals[i]
}

// OneOfInt64: a value from a finite pool, chosen by the solver.
func OneOfInt64(name string, vals ...int64) int64 {
	if len(vals) == 1 {
		return vals[0]
	}
	i := int(Int64(name))
	if i < 0 || i >= len(vals) {
		return vals[0]
	}
	return vals[i]
}
func Duration(name string) time.Duration { return time.Duration(Int64(name)) }
func Time(name string) time.Time         { return time.Unix(0, Int64(name)).UTC() }

// Now is what time.Now() is rewritten to in the replayed package.
func Now() time.Time {
	v, ok := raw("now")
	if !ok {
		lastNow = time.Now()
		return lastNow
	}
	i, _ := strconv.ParseInt(v, 10, 64)
	lastNow = time.Unix(0, i).UTC()
	if !haveFirstNow {
		firstNow, haveFirstNow = lastNow, true
	}
	return lastNow
}

var lastNow, firstNow time.Time
var haveFirstNow bool

// TimeFormatDigits: under the engine, Format/Parse of symbolic instants with layouts built
// from 2006 01 02 15 04 05, 'T', separators and a UTC zone produce / consume fixed-width
// digit strings (uninterpreted digits per component index). Natively a no-op.
func TimeFormatDigits() {}

// Threads runs fs concurrently. Under the engine the interleaving is chosen by the symbolic
// scheduler (every schedule within the preemption bound); natively they are plain goroutines.
func Threads(fs ...func()) {
	var wg sync.WaitGroup
	for _, f := range fs {
		wg.Add(1)
		go func(f func()) { defer wg.Done(); f() }(f)
	}
	wg.Wait()
}

// Await blocks the calling thread until cond() holds (engine: the scheduler runs the other
// threads; natively: polls).
func Await(cond func() bool) {
	for !cond() {
		time.Sleep(time.Millisecond)
	}
}

// Yield marks a scheduling point inside a harness model (e.g. a database call).
func Yield() {}

// FirstNow returns the first reading of the controlled clock.
func FirstNow() time.Time { return firstNow }

// LastNow returns the most recent reading of the controlled clock.
func LastNow() time.Time              { return lastNow }
func Since(t time.Time) time.Duration { return Now().Sub(t) }
func ClockMonotone()                  {}

// ClockSpan bounds every clock reading to lie within d of the first one.
func ClockSpan(d time.Duration) {}

func Assume(c bool) {
	if !c {
		panic(assumeFailed{})
	}
}
func Assert(c bool, msg string) {
	if !c {
		Failed = append(Failed, msg)
		fmt.Printf("VERIF-REPLAY: ASSERT-FAILED %s\n", msg)
	}
}
func Reach(label string)           {}
func And(a, b bool) bool           { return a && b }
func Or(a, b bool) bool            { return a || b }
func Not(a bool) bool              { return !a }
func Implies(a, b bool) bool       { return !a || b }
func EqStr(a, b string) bool       { return a == b }
func EqBytes(a, b []byte) bool     { return string(a) == string(b) }
func Known(id string, pred bool)   {}
func ClearKnown()                  {}
func Unwind(n int)                 {}
func PanicsAre(kind string)        {}
func Symbolic() bool               { return false }
func Observe(tag string, v ...any) {}

// OutOfModel: a harness model was asked something it does not model; the engine reports the
// path as out of encoding (inconclusive), a native run panics.
func OutOfModel(msg string) { panic("out of model: " + msg) }

func Crash() { panic(crashSignal{}) }
func IteInt64(c bool, a, b int64) int64 {
	if c {
		return a
	}
	return b
}
func IteInt(c bool, a, b int) int {
	if c {
		return a
	}
	return b
}

// CallSiteConst: under the engine, the integer constant passed as argument `arg`
// at the occurrence-th static call to `callee` inside function `fn` of the real
// program (read from its SSA). Natively the value recorded by the engine is used.
func CallSiteConst(fn, callee string, arg, occurrence int) int64 {
	return Int64(fmt.Sprintf("callsite:%s:%s:%d:%d", fn, callee, arg, occurrence))
}

func Param(key, def string) string {
	load()
	if v, ok := rf.Params[key]; ok {
		return v
	}
	return def
}
func ParamInt(key string, def int) int {
	load()
	if v, ok := rf.Params[key]; ok {
		n, _ := strconv.Atoi(v)
		return n
	}
	return def
}

// RunReplay runs a harness natively and prints the outcome protocol lines.
func RunReplay(h func()) {
	defer func() {
		if r := recover(); r != nil {
			switch r.(type) {
			case assumeFailed:
				fmt.Println("VERIF-REPLAY: ASSUME-FAILED")
				return
			case crashSignal:
				fmt.Println("VERIF-REPLAY: CRASHED")
				return
			}
			fmt.Printf("VERIF-REPLAY: PANIC %v\n", r)
			return
		}
		if len(Failed) == 0 {
			fmt.Println("VERIF-REPLAY: OK")
		}
	}()
	h()
}

// FiberHeader registers, for the engine, the value (*fiber.Ctx).Get(name) returns;
// natively the harness builds a real Fiber context carrying the header.
func FiberHeader(name, value string) {}

// ---- file-system model hooks (engine); native equivalents use the real OS ----

var tempDir string

// TempPath returns a scratch path: /vtmp/<name> in the engine's file-system model,
// a file inside a fresh temporary directory natively.
func TempPath(name string) string {
	if tempDir == "" {
		d, err := os.MkdirTemp("", "verif-replay-")
		if err != nil {
			panic(err)
		}
		tempDir = d
	}
	return tempDir + "/" + name
}
func FSCrashPoints(on bool) {}
func FSFaults(on bool)      {}
func FSCrashed() bool       { return false }
func FSFileBytes(path string) ([]byte, bool) {
	b, err := os.ReadFile(path)
	return b, err == nil
}
func FSList() []string { return nil }

// ---- FakeBackend: an in-memory object store with the method set of storage.Backend
// (plus AppendReader / DeleteBatch). It runs natively and under the engine; faults and
// crash points are engine choices (Choice) so that every fault pattern is explored.

type CrashSignal struct{ At string }

type FakeBackend struct {
	Files   map[string][]byte
	Ops     []string
	Faults  bool // every operation may fail
	Crashes bool // every mutating operation is a crash point (panic(CrashSignal))
	NoFault map[string]bool
	// FaultPaths, when non-nil, restricts injected failures to operations on these paths
	FaultPaths map[string]bool
	Steps      int
}

func NewFakeBackend() *FakeBackend {
	return &FakeBackend{Files: map[string][]byte{}, NoFault: map[string]bool{}}
}

func (f *FakeBackend) step(op, path string, mutating bool) error {
	f.Steps++
	f.Ops = append(f.Ops, op+" "+path)
	if mutating && f.Crashes && Choice("crash-before-"+op, 2) == 1 {
		panic(CrashSignal{At: op + " " + path})
	}
	if f.Faults && !f.NoFault[op] && (f.FaultPaths == nil || f.FaultPaths[path]) && Choice("fault-"+op, 2) == 1 {
		return fmt.Errorf("fake backend: injected %s failure", op)
	}
	return nil
}

func (f *FakeBackend) Write(ctx context.Context, path string, data []byte) error {
	if err := f.step("write", path, true); err != nil {
		return err
	}
	f.Files[path] = append([]byte(nil), data...)
	return nil
}
func (f *FakeBackend) WriteReader(ctx context.Context, path string, r io.Reader, size int64) error {
	if err := f.step("write", path, true); err != nil {
		return err
	}
	b, err := io.ReadAll(r)
	if err != nil {
		return err
	}
	f.Files[path] = b
	return nil
}
func (f *FakeBackend) AppendReader(ctx context.Context, path string, r io.Reader, appendSize int64) error {
	return f.WriteReader(ctx, path, r, appendSize)
}
func (f *FakeBackend) Read(ctx context.Context, path string) ([]byte, error) {
	if err := f.step("read", path, false); err != nil {
		return nil, err
	}
	b, ok := f.Files[path]
	if !ok {
		return nil, fmt.Errorf("fake backend: %s: not found", path)
	}
	return append([]byte(nil), b...), nil
}
func (f *FakeBackend) ReadTo(ctx context.Context, path string, w io.Writer) error {
	b, err := f.Read(ctx, path)
	if err != nil {
		return err
	}
	_, err = w.Write(b)
	return err
}
func (f *FakeBackend) ReadToAt(ctx context.Context, path string, w io.Writer, offset int64) error {
	b, err := f.Read(ctx, path)
	if err != nil {
		return err
	}
	if offset < 0 || offset >= int64(len(b)) {
		return fmt.Errorf("fake backend: offset out of range")
	}
	_, err = w.Write(b[offset:])
	return err
}
func (f *FakeBackend) StatFile(ctx context.Context, path string) (int64, error) {
	if err := f.step("stat", path, false); err != nil {
		return 0, err
	}
	b, ok := f.Files[path]
	if !ok {
		return -1, nil
	}
	return int64(len(b)), nil
}
func (f *FakeBackend) List(ctx context.Context, prefix string) ([]string, error) {
	if err := f.step("list", prefix, false); err != nil {
		return nil, err
	}
	var out []string
	for p := range f.Files {
		if strings.HasPrefix(p, prefix) {
			out = append(out, p)
		}
	}
	sort.Strings(out)
	return out, nil
}
func (f *FakeBackend) Delete(ctx context.Context, path string) error {
	if err := f.step("delete", path, true); err != nil {
		return err
	}
	delete(f.Files, path)
	return nil
}
func (f *FakeBackend) DeleteBatch(ctx context.Context, paths []string) error {
	for _, p := range paths {
		if err := f.Delete(ctx, p); err != nil {
			return err
		}
	}
	return nil
}
func (f *FakeBackend) Exists(ctx context.Context, path string) (bool, error) {
	if err := f.step("exists", path, false); err != nil {
		return false, err
	}
	_, ok := f.Files[path]
	return ok, nil
}
func (f *FakeBackend) Close() error       { return nil }
func (f *FakeBackend) Type() string       { return "fake" }
func (f *FakeBackend) ConfigJSON() string { return "{}" }

// LargeAllocAs(k): engine bound — make([]T, n) with a symbolic n > k is represented by
// one slice of k+1 elements (sound when behaviour is the same for every n > k).
func LargeAllocAs(k int) {}

// ClockFixed(ns): under the engine time.Now() returns this constant (ns < 0: symbolic again).
func ClockFixed(ns int64) {}

// FSWriteFile puts a file into the engine's file-system model (native: os.WriteFile).
func FSWriteFile(path string, data []byte) {
	if err := os.WriteFile(path, data, 0o600); err != nil {
		panic(err)
	}
}
