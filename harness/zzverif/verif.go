// Package zzverif is the harness API of the /verif symbolic executor.
//
// Under the engine (gosym) every function below is intercepted: Int64, Bytes, …
// return fresh SMT variables, Assume/Assert add to / query the path condition.
// The bodies here are the NATIVE semantics used when a solver counterexample is
// replayed as an ordinary Go test: values come from the JSON file named by
// $VERIF_REPLAY, and a failed Assert is reported as the reproduction.
//
// This file is never committed to the repository; it is injected with
// -overlay (go test) / packages.Config.Overlay (engine).
package zzverif

import (
	"encoding/json"
	"fmt"
	"os"
	"strconv"
	"strings"
	"time"
)

type replayFile struct {
	Inputs map[string]string `json:"inputs"`
	Params map[string]string `json:"params"`
}

var (
	rf      replayFile
	loaded  bool
	seq     = map[string]int{}
	Failed  []string
	assumed bool
)

type assumeFailed struct{}
type crashSignal struct{}

func load() {
	if loaded {
		return
	}
	loaded = true
	rf.Inputs = map[string]string{}
	rf.Params = map[string]string{}
	p := os.Getenv("VERIF_REPLAY")
	if p == "" {
		return
	}
	b, err := os.ReadFile(p)
	if err != nil {
		panic(err)
	}
	if err := json.Unmarshal(b, &rf); err != nil {
		panic(err)
	}
}

func sanitize(s string) string {
	var sb strings.Builder
	for _, r := range s {
		if (r >= 'a' && r <= 'z') || (r >= 'A' && r <= 'Z') || (r >= '0' && r <= '9') || r == '_' || r == '.' {
			sb.WriteRune(r)
		} else {
			sb.WriteByte('_')
		}
	}
	if sb.Len() == 0 {
		return "v"
	}
	return sb.String()
}

func raw(name string) (string, bool) {
	load()
	n := seq[name]
	seq[name] = n + 1
	key := name
	if n > 0 {
		key = fmt.Sprintf("%s!%d", name, n)
	}
	v, ok := rf.Inputs[key]
	return v, ok
}

func Int64(name string) int64 {
	v, ok := raw(name)
	if !ok || v == "?" {
		return 0
	}
	i, err := strconv.ParseInt(v, 10, 64)
	if err != nil {
		u, _ := strconv.ParseUint(v, 10, 64)
		return int64(u)
	}
	return i
}
func Int(name string) int       { return int(Int64(name)) }
func Int32(name string) int32   { return int32(Int64(name)) }
func Uint32(name string) uint32 { return uint32(Int64(name)) }
func Uint64(name string) uint64 {
	v, ok := raw(name)
	if !ok || v == "?" {
		return 0
	}
	u, err := strconv.ParseUint(v, 10, 64)
	if err != nil {
		i, _ := strconv.ParseInt(v, 10, 64)
		return uint64(i)
	}
	return u
}
func Byte(name string) byte { return byte(Int64(name)) }
func Bool(name string) bool { v, _ := raw(name); return v == "true" }
func Float64(name string) float64 {
	v, _ := raw(name)
	f, _ := strconv.ParseFloat(v, 64)
	return f
}
func Bytes(name string, n int) []byte {
	v, ok := raw(name)
	b := make([]byte, n)
	if ok {
		s, err := strconv.Unquote(v)
		if err == nil {
			copy(b, s)
		}
	}
	return b
}
func String(name string, n int) string { return string(Bytes(name, n)) }
func Len(name string, max int) int     { return int(Int64(name)) }
func Choice(name string, n int) int    { return int(Int64(name)) }
func SymChoice(name string, n int) int { return int(Int64(name)) }
func OneOf(name string, vals ...string) string {
	if len(vals) == 1 {
		return vals[0]
	}
	i := int(Int64(name))
	if i < 0 || i >= len(vals) {
		return vals[0]
	}
	return vals[i]
}
// OneOfInt64: a value from a finite pool, chosen by the solver.
func OneOfInt64(name string, vals ...int64) int64 {
	if len(vals) == 1 {
		return vals[0]
	}
	i := int(Int64(name))
	if i < 0 || i >= len(vals) {
		return vals[0]
	}
	return vals[i]
}
func Duration(name string) time.Duration { return time.Duration(Int64(name)) }
func Time(name string) time.Time         { return time.Unix(0, Int64(name)).UTC() }

// Now is what time.Now() is rewritten to in the replayed package.
func Now() time.Time {
	v, ok := raw("now")
	if !ok {
		lastNow = time.Now()
		return lastNow
	}
	i, _ := strconv.ParseInt(v, 10, 64)
	lastNow = time.Unix(0, i).UTC()
	return lastNow
}

var lastNow time.Time

// LastNow returns the most recent reading of the controlled clock.
func LastNow() time.Time { return lastNow }
func Since(t time.Time) time.Duration { return Now().Sub(t) }
func ClockMonotone()                  {}

// ClockSpan bounds every clock reading to lie within d of the first one.
func ClockSpan(d time.Duration) {}

func Assume(c bool) {
	if !c {
		panic(assumeFailed{})
	}
}
func Assert(c bool, msg string) {
	if !c {
		Failed = append(Failed, msg)
		fmt.Printf("VERIF-REPLAY: ASSERT-FAILED %s\n", msg)
	}
}
func Reach(label string)            {}
func And(a, b bool) bool            { return a && b }
func Or(a, b bool) bool             { return a || b }
func Not(a bool) bool               { return !a }
func Implies(a, b bool) bool        { return !a || b }
func EqStr(a, b string) bool        { return a == b }
func EqBytes(a, b []byte) bool      { return string(a) == string(b) }
func Known(id string, pred bool)    {}
func ClearKnown()                   {}
func Unwind(n int)                  {}
func PanicsAre(kind string)         {}
func Symbolic() bool               { return false }
func Observe(tag string, v ...any)  {}
func Crash()                        { panic(crashSignal{}) }
func IteInt64(c bool, a, b int64) int64 {
	if c {
		return a
	}
	return b
}
func IteInt(c bool, a, b int) int {
	if c {
		return a
	}
	return b
}
// CallSiteConst: under the engine, the integer constant passed as argument `arg`
// at the occurrence-th static call to `callee` inside function `fn` of the real
// program (read from its SSA). Natively the value recorded by the engine is used.
func CallSiteConst(fn, callee string, arg, occurrence int) int64 {
	return Int64(fmt.Sprintf("callsite:%s:%s:%d:%d", fn, callee, arg, occurrence))
}

func Param(key, def string) string {
	load()
	if v, ok := rf.Params[key]; ok {
		return v
	}
	return def
}
func ParamInt(key string, def int) int {
	load()
	if v, ok := rf.Params[key]; ok {
		n, _ := strconv.Atoi(v)
		return n
	}
	return def
}

// RunReplay runs a harness natively and prints the outcome protocol lines.
func RunReplay(h func()) {
	defer func() {
		if r := recover(); r != nil {
			switch r.(type) {
			case assumeFailed:
				fmt.Println("VERIF-REPLAY: ASSUME-FAILED")
				return
			case crashSignal:
				fmt.Println("VERIF-REPLAY: CRASHED")
				return
			}
			fmt.Printf("VERIF-REPLAY: PANIC %v\n", r)
			return
		}
		if len(Failed) == 0 {
			fmt.Println("VERIF-REPLAY: OK")
		}
	}()
	h()
}

// FiberHeader registers, for the engine, the value (*fiber.Ctx).Get(name) returns;
// natively the harness builds a real Fiber context carrying the header.
func FiberHeader(name, value string) {}
