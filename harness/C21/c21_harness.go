//go:build verif

package auth

import (
	"context"
	"database/sql"
	"time"

	zz "github.com/basekick-labs/arc/internal/zzverif"
	"github.com/rs/zerolog"
)

// ---- the one api_tokens row involved, as a model of SQLite ----
// The row exists and is enabled; its token_hash matches the old token value until a
// rotation replaces it. Each database call is one scheduling point (a statement is atomic).

var c21Enabled, c21Exists, c21Rotated bool

// The auth database handle has a pool of c21Conns connections (the constant passed to
// SetMaxOpenConns in NewAuthManager, read from the real call site). An open result set
// holds a connection until it is closed; Query and Exec wait for a free one.
var c21Conns, c21Busy int

func c21Acquire() {
	zz.Yield()
	if c21Conns > 0 {
		zz.Await(func() bool { return c21Busy < c21Conns })
	}
	c21Busy++
}

type c21RowsState struct{ has, consumed, closed bool }

var c21Rows map[*sql.Rows]*c21RowsState

func c21Query(db *sql.DB, q string, args ...interface{}) (*sql.Rows, error) {
	c21Acquire() // released by Rows.Close
	r := &sql.Rows{}
	// SELECT ... WHERE enabled = 1 AND token_prefix = ? : the row is returned iff it
	// exists, is enabled and still carries the old value's prefix
	c21Rows[r] = &c21RowsState{has: c21Exists && c21Enabled && !c21Rotated}
	return r, nil
}
func c21Next(r *sql.Rows) bool {
	st := c21Rows[r]
	if st == nil || !st.has || st.consumed {
		c21Release(r) // database/sql closes the result set when Next reports no more rows
		return false
	}
	st.consumed = true
	return true
}

func c21Release(r *sql.Rows) {
	if st := c21Rows[r]; st != nil && !st.closed {
		st.closed = true
		c21Busy--
	}
}
func c21Scan(r *sql.Rows, dest ...interface{}) error {
	*dest[0].(*int64) = 1
	*dest[1].(*string) = "svc"
	*dest[2].(*string) = "HASH-OLD"
	*dest[8].(*bool) = true
	return nil
}
func c21Close(r *sql.Rows) error { c21Release(r); return nil }

type c21Res struct{ n int64 }

func (r c21Res) LastInsertId() (int64, error) { return 0, nil }
func (r c21Res) RowsAffected() (int64, error) { return r.n, nil }

func c21Exec(db *sql.DB, q string, args ...interface{}) (sql.Result, error) {
	c21Acquire()
	defer func() { c21Busy-- }()
	if !c21Exists {
		return c21Res{0}, nil
	}
	switch {
	case len(q) >= 6 && q[:6] == "DELETE":
		c21Exists = false
	case containsC21(q, "enabled = 0"):
		c21Enabled = false
	case containsC21(q, "token_hash = ?"):
		c21Rotated = true
	}
	return c21Res{1}, nil
}

func containsC21(s, sub string) bool {
	for i := 0; i+len(sub) <= len(s); i++ {
		if s[i:i+len(sub)] == sub {
			return true
		}
	}
	return false
}

func c21CacheKey(token string) string            { return "K:" + token }
func c21TokenPrefix(token string) string         { return "P:" + token }
func c21GenerateToken() (string, error)          { return "new-token", nil }
func c21HashToken(am *AuthManager, t string) (string, error) { return "HASH-NEW", nil }

// VerifC21Race: one VerifyToken(old value) runs concurrently with one revoke / delete /
// rotate of that token, over every schedule of their lock, cache and database steps; once
// the mutation has returned, a further VerifyToken(old value) must fail.
func VerifC21Race() {
	zz.ClockFixed(1700000000000000000)
	c21Enabled, c21Exists, c21Rotated = true, true, false
	c21Rows = map[*sql.Rows]*c21RowsState{}
	c21Conns, c21Busy = int(zz.CallSiteConst("github.com/basekick-labs/arc/internal/auth.NewAuthManager", "(*database/sql.DB).SetMaxOpenConns", 1, 0)), 0
	am := &AuthManager{db: &sql.DB{}, cache: map[string]cacheEntry{}, cacheTTL: time.Hour, maxCacheSize: 10, logger: zerolog.Nop()}
	if zz.Bool("already_cached") {
		// the token was used shortly before: a live cache entry exists
		_ = am.VerifyToken("old-token")
	}
	var mutErr error
	kind := zz.Choice("mutation", 3)
	zz.Threads(
		func() { _ = am.VerifyToken("old-token") },
		func() {
			switch kind {
			case 0:
				mutErr = am.RevokeToken(context.Background(), 1)
			case 1:
				mutErr = am.DeleteToken(context.Background(), 1)
			default:
				_, mutErr = am.RotateToken(context.Background(), 1)
			}
		},
	)
	zz.Assert(mutErr == nil, "the mutation failed although the token exists")
	after := am.VerifyToken("old-token")
	zz.Assert(after == nil, "the old token value still authenticates after its revoke/delete/rotate call has returned")
	zz.Reach("end")
}
