//go:build verif

package ingest

import (
	zz "github.com/basekick-labs/arc/internal/zzverif"
	"github.com/basekick-labs/arc/pkg/models"
	"github.com/rs/zerolog"
)

// c02Payload: {"m":"cpu","columns":{"time":[int64 ts...],"v":[first..., <elem>]}}: the last
// element of the value column is left to the solver (its code byte and the following
// bytes are symbolic, so every msgpack encoding that fits, and every truncated or
// mutated one, is in the space); the elements before it are fixed by `first`.
func c02Payload(first string, n int) ([]byte, int) {
	if first == "time" {
		// the TIME column's only element is symbolic; the value column is [7]
		b := []byte{0x82, 0xa1, 'm', 0xa3, 'c', 'p', 'u', 0xa7, 'c', 'o', 'l', 'u', 'm', 'n', 's', 0x82, 0xa4, 't', 'i', 'm', 'e', 0x91}
		elem := zz.Bytes("elem", n)
		c := elem[0]
		zz.Assume(!(c >= 0xc7 && c <= 0xc9) && !(c >= 0xd4 && c <= 0xd8))
		// bytes follow the element here, so a 16/32-bit length header would combine
		// symbolic and fixed bytes into a length of up to 2^32: excluded
		zz.Assume(c != 0xc5 && c != 0xc6 && c != 0xda && c != 0xdb && !(c >= 0xdc && c <= 0xdf))
		// ... and a fixmap/fixarray would swallow the following fixed bytes as its
		// content (nested keys decoded through reflection): excluded as well
		zz.Assume(!(c >= 0x80 && c <= 0x9f))
		if n > 2 {
			d := elem[1]
			zz.Assume(!(d >= 0xc7 && d <= 0xc9) && !(d >= 0xd4 && d <= 0xd8))
			zz.Assume(d != 0xc5 && d != 0xc6 && d != 0xda && d != 0xdb && !(d >= 0xdc && d <= 0xdf))
			// the last symbolic byte may start the next key or value: no 16/32-bit length
			// header there either (it would take its length from the fixed bytes that follow)
			g := elem[2]
			zz.Assume(g != 0xc5 && g != 0xc6 && g != 0xda && g != 0xdb && !(g >= 0xdc && g <= 0xdf) && g != 0xc8 && g != 0xc9)
		}
		b = append(b, elem...)
		b = append(b, 0xa1, 'v', 0x91, 0x07)
		return b, 1
	}
	var lead []byte
	switch first {
	case "str":
		lead = []byte{0xa1, 'a'}
	case "int":
		lead = []byte{0x07}
	case "float":
		lead = []byte{0xca, 0x3f, 0xc0, 0x00, 0x00} // float32 1.5
	case "nil":
		lead = []byte{0xc0}
	case "bool":
		lead = []byte{0xc3}
	}
	rows := 1
	if len(lead) > 0 {
		rows = 2
	}
	b := []byte{0x82, 0xa1, 'm', 0xa3, 'c', 'p', 'u', 0xa7, 'c', 'o', 'l', 'u', 'm', 'n', 's', 0x82, 0xa4, 't', 'i', 'm', 'e', byte(0x90 + rows)}
	for i := 0; i < rows; i++ {
		b = append(b, 0xd3, 0x00, 0x06, 0x0a, 0x24, 0x18, 0x1e, 0x40, byte(i)) // int64 1700000000000000+i
	}
	b = append(b, 0xa1, 'v', byte(0x90+rows))
	b = append(b, lead...)
	elem := zz.Bytes("elem", n)
	// ext types are outside: the generic decoder resolves them through reflection
	c := elem[0]
	zz.Assume(!(c >= 0xc7 && c <= 0xc9) && !(c >= 0xd4 && c <= 0xd8))
	if n > 2 {
		// longer elements: no 16/32-bit length headers (str16/32, bin16/32, array16/32,
		// map16/32 - a symbolic length of up to 2^32 cannot be unrolled) and no ext code
		// nested inside a one-element container
		zz.Assume(c != 0xc5 && c != 0xc6 && c != 0xda && c != 0xdb && !(c >= 0xdc && c <= 0xdf))
		d := elem[1]
		zz.Assume(!(d >= 0xc7 && d <= 0xc9) && !(d >= 0xd4 && d <= 0xd8))
		zz.Assume(d != 0xc5 && d != 0xc6 && d != 0xda && d != 0xdb && !(d >= 0xdc && d <= 0xdf))
		// a map element whose key is not a fixstr: the generic decoder builds
		// map[interface{}]interface{} through reflection (not encoded)
		zz.Assume(!(c >= 0x81 && c <= 0x8f && !(d >= 0xa0 && d <= 0xbf)))
	}
	b = append(b, elem...)
	return b, rows
}

func c02SameColumn(a, b interface{}, va, vb []bool, rows int) bool {
	valid := func(v []bool, i int) bool { return v == nil || v[i] }
	switch x := a.(type) {
	case []int64:
		y, ok := b.([]int64)
		if !ok || len(x) != rows || len(y) != rows {
			return false
		}
		for i := range x {
			if valid(va, i) != valid(vb, i) || (valid(va, i) && x[i] != y[i]) {
				return false
			}
		}
		return true
	case []float64:
		y, ok := b.([]float64)
		if !ok || len(x) != rows || len(y) != rows {
			return false
		}
		for i := range x {
			if valid(va, i) != valid(vb, i) || (valid(va, i) && !(x[i] == y[i] || (x[i] != x[i] && y[i] != y[i]))) {
				return false
			}
		}
		return true
	case []string:
		y, ok := b.([]string)
		if !ok || len(x) != rows || len(y) != rows {
			return false
		}
		for i := range x {
			if valid(va, i) != valid(vb, i) || (valid(va, i) && !zz.EqStr(x[i], y[i])) {
				return false
			}
		}
		return true
	case []bool:
		y, ok := b.([]bool)
		if !ok || len(x) != rows || len(y) != rows {
			return false
		}
		for i := range x {
			if valid(va, i) != valid(vb, i) || (valid(va, i) && x[i] != y[i]) {
				return false
			}
		}
		return true
	}
	return false
}

// VerifC02Elem: the same request body goes through the typed fast path and through the
// generic path (fast path switched off), each followed by what the write path does with
// the decoded record (the generic record is converted by convertColumnsToTyped). The
// write is accepted by both or by neither, and when accepted the measurement, the row
// count, the column types, the values and the null positions agree.
func VerifC02Elem() {
	data, rows := c02Payload(zz.Param("first", "none"), zz.ParamInt("elem_bytes", 2))
	c02Compare(data, rows)
}

// VerifC02Shape: three columns whose lengths are chosen independently from 0..2 (so empty
// columns next to populated ones, all-empty payloads and ordinary length mismatches are
// all in the space); the elements of the last column are one symbolic byte each.
func VerifC02Shape() {
	b := []byte{0x82, 0xa1, 'm', 0xa3, 'c', 'p', 'u', 0xa7, 'c', 'o', 'l', 'u', 'm', 'n', 's', 0x83, 0xa4, 't', 'i', 'm', 'e'}
	lt := zz.Choice("time_len", 3)
	b = append(b, byte(0x90+lt))
	for i := 0; i < lt; i++ {
		b = append(b, 0xd3, 0x00, 0x06, 0x0a, 0x24, 0x18, 0x1e, 0x40, byte(i))
	}
	lw := zz.Choice("w_len", 3)
	b = append(b, 0xa1, 'w', byte(0x90+lw))
	for i := 0; i < lw; i++ {
		b = append(b, 0x07)
	}
	lv := zz.Choice("v_len", 3)
	b = append(b, 0xa1, 'v', byte(0x90+lv))
	if lv > 0 {
		elems := zz.Bytes("v_elems", lv)
		for _, c := range elems {
			zz.Assume(!(c >= 0xc7 && c <= 0xc9) && !(c >= 0xd4 && c <= 0xd8))
			// a 16/32-bit length header at the end of the body reads past it: both
			// decoders fail on EOF; kept out only because the length is symbolic
			zz.Assume(c != 0xc5 && c != 0xc6 && c != 0xda && c != 0xdb && !(c >= 0xdc && c <= 0xdf))
		}
		b = append(b, elems...)
	}
	if lt != lw || lw != lv {
		zz.Reach("unequal-lengths")
	}
	c02Compare(b, -1)
}

func c02Compare(data []byte, rows int) {
	typed := NewMessagePackDecoder(zerolog.Nop())
	typed.SetTypedDecodeEnabled(true)
	generic := NewMessagePackDecoder(zerolog.Nop())
	generic.SetTypedDecodeEnabled(false)
	r1, e1 := typed.Decode(append([]byte(nil), data...))
	r2, e2 := generic.Decode(append([]byte(nil), data...))
	buf := &ArrowBuffer{}
	// accept/reject as the write path sees it
	var tb, gb *TypedColumnBatch
	tm, gm := "", ""
	tn, gn := 0, 0
	ok1, ok2 := false, false
	if e1 == nil {
		if l, ok := r1.([]interface{}); ok && len(l) == 1 {
			switch rec := l[0].(type) {
			case *TypedColumnarRecord:
				tb, tm, tn, ok1 = rec.Batch, rec.Measurement, rec.NumRecords, true
				zz.Reach("fast-path-taken")
			case *models.ColumnarRecord: // the fast path declined and fell back
				if b, n, err := buf.convertColumnsToTyped(rec.Measurement, rec.Columns); err == nil {
					tb, tm, tn, ok1 = b, rec.Measurement, n, true
				}
			}
		}
	}
	if e2 == nil {
		if l, ok := r2.([]interface{}); ok && len(l) == 1 {
			if rec, ok := l[0].(*models.ColumnarRecord); ok {
				if b, n, err := buf.convertColumnsToTyped(rec.Measurement, rec.Columns); err == nil {
					gb, gm, gn, ok2 = b, rec.Measurement, n, true
				}
			}
		}
	}
	zz.Assert(ok1 == ok2, "turning the typed fast path on or off changes whether the write is accepted")
	if ok1 && ok2 {
		zz.Assert(zz.EqStr(tm, gm) && tn == gn && (rows < 0 || tn == rows), "measurement or row count differs between the typed and the generic path")
		if rows < 0 {
			rows = tn
		}
		zz.Assert(len(tb.Data) == len(gb.Data), "the typed and the generic path store different columns")
		for name, col := range tb.Data {
			other, has := gb.Data[name]
			zz.Assert(has && c02SameColumn(col, other, tb.Validity[name], gb.Validity[name], rows), "column "+name+": type, values or null positions differ between the typed and the generic path")
		}
		zz.Reach("accepted")
	} else {
		zz.Reach("rejected")
	}
}

// VerifC02Keys: a top-level map with three entries: "m", "columns" and a third entry
// whose one-character key and one-character string value are symbolic (so it can repeat
// "m", or be an unknown key the decoders skip), in either position relative to the others.
func VerifC02Keys() {
	k, v := zz.Byte("third_key"), zz.Byte("third_value")
	zz.Assume(k >= 0x20 && k < 0x7f && v >= 0x20 && v < 0x7f)
	third := []byte{0xa1, k, 0xa1, v}
	m := []byte{0xa1, 'm', 0xa3, 'c', 'p', 'u'}
	cols := []byte{0xa7, 'c', 'o', 'l', 'u', 'm', 'n', 's', 0x82, 0xa4, 't', 'i', 'm', 'e', 0x91,
		0xd3, 0x00, 0x06, 0x0a, 0x24, 0x18, 0x1e, 0x40, 0x00, 0xa1, 'v', 0x91, 0x07}
	b := []byte{0x83}
	switch zz.Choice("third_position", 3) {
	case 0:
		b = append(append(append(b, third...), m...), cols...)
	case 1:
		b = append(append(append(b, m...), third...), cols...)
	default:
		b = append(append(append(b, m...), cols...), third...)
	}
	typed := NewMessagePackDecoder(zerolog.Nop())
	typed.SetTypedDecodeEnabled(true)
	generic := NewMessagePackDecoder(zerolog.Nop())
	r1, e1 := typed.Decode(append([]byte(nil), b...))
	r2, e2 := generic.Decode(append([]byte(nil), b...))
	zz.Assert((e1 == nil) == (e2 == nil), "turning the typed fast path on or off changes whether the write is accepted")
	if e1 == nil && e2 == nil {
		m1, m2 := "", ""
		switch rec := r1.([]interface{})[0].(type) {
		case *TypedColumnarRecord:
			m1 = rec.Measurement
			zz.Reach("fast-path-taken")
		case *models.ColumnarRecord:
			m1 = rec.Measurement
		}
		if rec, ok := r2.([]interface{})[0].(*models.ColumnarRecord); ok {
			m2 = rec.Measurement
		}
		zz.Assert(zz.EqStr(m1, m2), "the typed and the generic path store the rows under different measurements")
	}
	zz.Reach("end")
}

// VerifC02Measurement: the value of the top-level key m is a symbolic msgpack scalar: one
// code byte from the integer / nil / bool / float32 / fixstr families followed by as many
// symbolic bytes as that code needs (so every int8..int64 and uint8..uint64 value, both
// fixint ranges, and a one-byte string). The write is accepted by both paths or by neither,
// and both store the rows under the same measurement name.
func VerifC02Measurement() {
	var mval []byte
	switch zz.Choice("m_encoding", 12) {
	case 0:
		c := zz.Byte("fixint")
		zz.Assume(c <= 0x7f || c >= 0xe0)
		mval = []byte{c}
	case 1:
		mval = append([]byte{0xcc}, zz.Bytes("u8", 1)...)
	case 2:
		mval = append([]byte{0xcd}, zz.Bytes("u16", 2)...)
	case 3:
		mval = append([]byte{0xce}, zz.Bytes("u32", 4)...)
	case 4:
		mval = append([]byte{0xcf}, zz.Bytes("u64", 8)...)
	case 5:
		mval = append([]byte{0xd0}, zz.Bytes("i8", 1)...)
	case 6:
		mval = append([]byte{0xd1}, zz.Bytes("i16", 2)...)
	case 7:
		mval = append([]byte{0xd2}, zz.Bytes("i32", 4)...)
	case 8:
		mval = append([]byte{0xd3}, zz.Bytes("i64", 8)...)
	case 9:
		mval = []byte{[]byte{0xc0, 0xc2, 0xc3}[zz.Choice("nil_or_bool", 3)]}
	case 10:
		s := zz.Byte("one_char_name")
		zz.Assume(s >= 0x20 && s < 0x7f)
		mval = []byte{0xa1, s}
	default:
		mval = []byte{0xa0} // empty string
	}
	b := []byte{0x82, 0xa1, 'm'}
	b = append(b, mval...)
	b = append(b, 0xa7, 'c', 'o', 'l', 'u', 'm', 'n', 's', 0x82, 0xa4, 't', 'i', 'm', 'e', 0x91,
		0xd3, 0x00, 0x06, 0x0a, 0x24, 0x18, 0x1e, 0x40, 0x00, 0xa1, 'v', 0x91, 0x07)
	typed := NewMessagePackDecoder(zerolog.Nop())
	typed.SetTypedDecodeEnabled(true)
	generic := NewMessagePackDecoder(zerolog.Nop())
	generic.SetTypedDecodeEnabled(false)
	r1, e1 := typed.Decode(append([]byte(nil), b...))
	r2, e2 := generic.Decode(append([]byte(nil), b...))
	zz.Assert((e1 == nil) == (e2 == nil), "turning the typed fast path on or off changes whether the write is accepted")
	if e1 == nil && e2 == nil {
		m1, m2 := "", ""
		switch rec := r1.([]interface{})[0].(type) {
		case *TypedColumnarRecord:
			m1 = rec.Measurement
			zz.Reach("fast-path-taken")
		case *models.ColumnarRecord:
			m1 = rec.Measurement
		}
		if rec, ok := r2.([]interface{})[0].(*models.ColumnarRecord); ok {
			m2 = rec.Measurement
		}
		zz.Assert(zz.EqStr(m1, m2), "the typed and the generic path store the rows under different measurements")
		zz.Reach("accepted")
	}
	zz.Reach("end")
}

// VerifC02ColumnKeys: the columns map has three entries: time, v and a third one whose
// one-character name is symbolic - so it may repeat v (a hand-encoded payload can carry a
// key twice; the later occurrence wins in a Go map). The first v has a nil in a symbolic
// position, so a null mask that outlives the occurrence it belongs to shows up.
func VerifC02ColumnKeys() {
	k := zz.Byte("third_column_name")
	zz.Assume(k >= 0x20 && k < 0x7f)
	first := []byte{0xc0, 0x05} // [nil, 5]
	if zz.Bool("nil_is_second") {
		first = []byte{0x05, 0xc0}
	}
	b := []byte{0x82, 0xa1, 'm', 0xa3, 'c', 'p', 'u', 0xa7, 'c', 'o', 'l', 'u', 'm', 'n', 's', 0x83, 0xa4, 't', 'i', 'm', 'e', 0x92,
		0xd3, 0x00, 0x06, 0x0a, 0x24, 0x18, 0x1e, 0x40, 0x00, 0xd3, 0x00, 0x06, 0x0a, 0x24, 0x18, 0x1e, 0x40, 0x01,
		0xa1, 'v', 0x92}
	b = append(b, first...)
	b = append(b, 0xa1, k, 0x92, 0x07, 0x08) // <k>: [7, 8]
	if k == 'v' {
		zz.Reach("repeated-column")
	}
	c02Compare(b, 2)
}
