//go:build verif

package wal

import (
	"errors"
	"os"
	"time"

	zz "github.com/basekick-labs/arc/internal/zzverif"
	"github.com/rs/zerolog"
)

// c06Unmarshal stands in for msgpack.Unmarshal under the engine (the third-party decoder
// is reflection-driven). It decodes exactly the payload shape the harness appends:
// [{"k": <positive fixint>}] = 91 81 a1 'k' <b>, and rejects everything else.
func c06Unmarshal(data []byte, v interface{}) error {
	switch p := v.(type) {
	case *[]map[string]interface{}:
		if len(data) == 5 && data[0] == 0x91 && data[1] == 0x81 && data[2] == 0xa1 && data[3] == 'k' && data[4] < 0x80 {
			*p = []map[string]interface{}{{"k": int8(data[4])}}
			return nil
		}
		return errors.New("c06: not the row shape")
	}
	return errors.New("c06: unsupported target")
}

// c06Key extracts the value the harness stored in a decoded entry (-1: not that shape).
func c06Key(e Entry) int {
	if len(e.Records) != 1 {
		return -1
	}
	switch x := e.Records[0]["k"].(type) {
	case int8:
		return int(x)
	case int64:
		return int(x)
	case uint8:
		return int(x)
	case uint64:
		return int(x)
	case int:
		return x
	}
	return -1
}

type c06File struct {
	data   []byte
	start  []int // offset of entry i's header
	end    []int // offset just past entry i
	vals   []byte
	nEntry int
}

// c06Build frames k entries with the REAL AppendRaw / AppendRawWithMeta code.
func c06Build(k int) *c06File {
	// entry timestamps are not part of the claim: fixed clock; a damaged length above 255
	// cannot be satisfied by these files (all shorter), one representative is enough
	zz.ClockFixed(1700000000000000000)
	zz.LargeAllocAs(255)
	w := &Writer{entryChan: make(chan walEntry, 8)}
	f := &c06File{nEntry: k}
	f.data = append(f.data, WALMagic...)
	f.data = append(f.data, byte(WALVersion>>8), byte(WALVersion), WALChecksumCRC32)
	for i := 0; i < k; i++ {
		b := zz.Byte("val")
		zz.Assume(b < 0x80)
		payload := []byte{0x91, 0x81, 0xa1, 'k', b}
		var err error
		if i%2 == 0 {
			err = w.AppendRaw(payload)
		} else {
			err = w.AppendRawWithMeta("db1", payload)
		}
		zz.Assert(err == nil, "append failed")
		e := <-w.entryChan
		f.start = append(f.start, len(f.data))
		f.data = append(f.data, e.data...)
		f.end = append(f.end, len(f.data))
		f.vals = append(f.vals, b)
	}
	return f
}

func c06Read(data []byte) ([]Entry, error, *Reader) {
	path := zz.TempPath("wal-0001.wal")
	if err := os.WriteFile(path, data, 0o600); err != nil {
		panic(err)
	}
	r := NewReader(path, zerolog.Nop())
	es, err := r.ReadAll()
	return es, err, r
}

// VerifC06Truncate: for every truncation offset, exactly the entries wholly before the
// offset are returned, intact and in append order.
func VerifC06Truncate() {
	f := c06Build(zz.ParamInt("entries", 2))
	cut := zz.Int("cut")
	zz.Assume(zz.And(cut >= 0, cut <= len(f.data)))
	entries, err, _ := c06Read(f.data[:cut])
	zz.Assert(err == nil, "truncated WAL file makes ReadAll fail instead of returning the intact prefix")
	want := 0
	for i := 0; i < f.nEntry; i++ {
		if f.end[i] <= cut {
			want++
		}
	}
	zz.Assert(len(entries) == want, "number of entries returned differs from the entries wholly before the truncation point")
	for j := 0; j < len(entries) && j < f.nEntry; j++ {
		zz.Assert(c06Key(entries[j]) == int(f.vals[j]), "entry returned out of order or with a different payload")
	}
	zz.Reach("end")
}

// VerifC06Corrupt: one byte of the file (any position after the file header) is changed
// to any other value.
func VerifC06Corrupt() {
	f := c06Build(zz.ParamInt("entries", 2))
	n := len(f.data)
	pos := WALFileHeaderSize + zz.Choice("pos", n-WALFileHeaderSize)
	delta := zz.Byte("delta")
	zz.Assume(delta != 0)
	orig := append([]byte(nil), f.data...)
	data := append([]byte(nil), f.data...)
	data[pos] ^= delta
	// which entry / field is hit
	hit, field := -1, ""
	for i := 0; i < f.nEntry; i++ {
		if pos >= f.start[i] && pos < f.end[i] {
			hit = i
			off := pos - f.start[i]
			switch {
			case off < 4:
				field = "length"
				// bound: the damaged length is either < 256 (low byte) or above MaxWALPayloadSize
				// (top byte >= 7); lengths between 256 and 100MB need multi-megabyte buffers and
				// are outside the encoding
				if off == 1 || off == 2 {
					zz.Assume(false)
				}
				if off == 0 {
					zz.Assume(delta >= 7)
				}
			case off < 12:
				field = "timestamp"
			case off < 16:
				field = "checksum"
			default:
				field = "payload"
				// CRC-32 detects every change confined to one byte of a same-length message
				zz.Assume(crc32Of(orig[f.start[i]+16:f.end[i]]) != crc32Of(data[f.start[i]+16:f.end[i]]))
			}
		}
	}
	entries, err, _ := c06Read(data)
	zz.Assert(err == nil, "a corrupted entry makes ReadAll fail")
	switch field {
	case "timestamp":
		// timestamps are not covered by the checksum: payloads must be unaffected
		zz.Assert(len(entries) == f.nEntry, "timestamp corruption changed the number of entries")
		for j := 0; j < len(entries) && j < f.nEntry; j++ {
			zz.Assert(c06Key(entries[j]) == int(f.vals[j]), "timestamp corruption changed a payload")
		}
	case "checksum", "payload":
		zz.Assert(len(entries) == f.nEntry-1, "corrupted entry was returned, or an intact entry was dropped")
		j := 0
		for i := 0; i < f.nEntry; i++ {
			if i == hit {
				continue
			}
			if j < len(entries) {
				zz.Assert(c06Key(entries[j]) == int(f.vals[i]), "an intact entry is missing, altered or out of order")
			}
			j++
		}
	case "length":
		// the entries before the damaged one are returned intact; what follows a damaged
		// length is only claimed to be CRC-verified (checksum is an uninterpreted function)
		zz.Assert(len(entries) >= hit, "an intact entry before the damaged length field was dropped")
		for j := 0; j < hit && j < len(entries); j++ {
			zz.Assert(c06Key(entries[j]) == int(f.vals[j]), "an entry before the damaged length field was altered")
		}
	}
	zz.Reach("end")
}

// c06UnmarshalForms stands in for msgpack.Unmarshal for the run `formats`: like the real
// decoder it accepts an array of maps under every array header form (fixarray, array16,
// array32) for the row target and rejects it for the map target.
func c06UnmarshalForms(data []byte, v interface{}) error {
	body := -1
	switch {
	case len(data) >= 1 && data[0] == 0x91:
		body = 1
	case len(data) >= 3 && data[0] == 0xdc && data[1] == 0 && data[2] == 1:
		body = 3
	case len(data) >= 5 && data[0] == 0xdd && data[1] == 0 && data[2] == 0 && data[3] == 0 && data[4] == 1:
		body = 5
	}
	switch p := v.(type) {
	case *[]map[string]interface{}:
		if body > 0 && len(data) == body+4 && data[body] == 0x81 && data[body+1] == 0xa1 && data[body+2] == 'k' && data[body+3] < 0x80 {
			*p = []map[string]interface{}{{"k": int8(data[body+3])}}
			return nil
		}
		return errors.New("c06: not the row shape")
	case *map[string]interface{}:
		return errors.New("c06: array payload into a map")
	}
	return errors.New("c06: unsupported target")
}

// VerifC06Formats: a row-format entry is returned whatever array header form the encoder
// chose for it (msgpack switches from fixarray to array16 at 16 rows and to array32 at
// 65536 rows; the header form says nothing about the entry being intact).
func VerifC06Formats() {
	zz.ClockFixed(1700000000000000000)
	zz.LargeAllocAs(255)
	w := &Writer{entryChan: make(chan walEntry, 8)}
	var data []byte
	data = append(data, WALMagic...)
	data = append(data, byte(WALVersion>>8), byte(WALVersion), WALChecksumCRC32)
	b := zz.Byte("val")
	zz.Assume(b < 0x80)
	var payload []byte
	switch zz.Choice("array_header_form", 3) {
	case 0:
		payload = []byte{0x91}
	case 1:
		payload = []byte{0xdc, 0, 1}
	default:
		payload = []byte{0xdd, 0, 0, 0, 1}
	}
	payload = append(payload, 0x81, 0xa1, 'k', b)
	var err error
	if zz.Bool("with_envelope") {
		err = w.AppendRawWithMeta("db1", payload)
	} else {
		err = w.AppendRaw(payload)
	}
	zz.Assert(err == nil, "append failed")
	e := <-w.entryChan
	data = append(data, e.data...)
	entries, rerr, r := c06Read(data)
	zz.Assert(rerr == nil, "ReadAll failed on an intact file")
	zz.Assert(len(entries) == 1 && c06Key(entries[0]) == int(b), "an intact row-format entry was not returned")
	zz.Assert(r.CorruptedEntries == 0, "an intact entry was counted as corrupted")
	zz.Reach("end")
}

// VerifC06Rotation: the real writer rotates after every entry (size limit 1 byte) while two
// entries are appended; the clock readings at which the three WAL files are created are
// 1 ns, 999 us, 1 ms or 1 s apart. Read back with the real Reader, the files of the
// directory must yield exactly the two entries that were completely written - a rotation
// must never reopen a file that already holds entries and put a second file header in the
// middle of it. (The clock gaps are four concrete scenarios: concrete execution.)
func VerifC06Rotation() {
	dir := zz.TempPath("waldir")
	if err := os.MkdirAll(dir, 0o700); err != nil {
		panic(err)
	}
	w := &Writer{entryChan: make(chan walEntry, 8), logger: zerolog.Nop(),
		config: WriterConfig{WALDir: dir, SyncBytes: 1 << 40, MaxSizeBytes: 1, MaxAge: 1000 * time.Hour}}
	const t0 = int64(1700000000_000000001)
	gap := []int64{1, 999_000, 1_000_000, 1_000_000_000}[zz.Choice("gap", 4)]
	zz.ClockFixed(t0)
	zz.Assert(w.rotate() == nil, "initial rotation failed")
	for i := 0; i < 2; i++ {
		zz.Assert(w.AppendRaw([]byte{0x91, 0x81, 0xa1, 'k', byte(i + 1)}) == nil, "append")
		e := <-w.entryChan
		zz.ClockFixed(t0 + int64(i+1)*gap)
		w.writeEntry(e) // writes the entry, then rotates because the size limit is reached
	}
	if w.currentFile != nil {
		_ = w.currentFile.Close()
	}
	total := 0
	for _, p := range zz.FSList() {
		if len(p) < len(dir) || p[:len(dir)] != dir {
			continue
		}
		entries, err := NewReader(p, zerolog.Nop()).ReadAll()
		zz.Assert(err == nil, "a WAL file written by the writer itself cannot be read")
		total += len(entries)
	}
	zz.Assert(total == 2, "the WAL files do not yield exactly the entries that were completely written")
	zz.Reach("end")
}
