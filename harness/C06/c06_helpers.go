//go:build verif

package wal

import "hash/crc32"

func crc32Of(b []byte) uint32 { return crc32.ChecksumIEEE(b) }
