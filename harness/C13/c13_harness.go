//go:build verif

package backup

import (
	"context"
	"sort"
	"strings"

	"github.com/basekick-labs/arc/internal/storage"
	zz "github.com/basekick-labs/arc/internal/zzverif"
	"github.com/rs/zerolog"
)

// c13Store: the in-memory backend plus the ObjectLister the backup needs.
type c13Store struct{ *zz.FakeBackend }

func (s c13Store) ListObjects(ctx context.Context, prefix string) ([]storage.ObjectInfo, error) {
	var out []storage.ObjectInfo
	var keys []string
	for p := range s.Files {
		if strings.HasPrefix(p, prefix) {
			keys = append(keys, p)
		}
	}
	sort.Strings(keys)
	for _, p := range keys {
		out = append(out, storage.ObjectInfo{Path: p, Size: int64(len(s.Files[p]))})
	}
	return out, nil
}

var c13Pool = []string{
	"db/cpu/2024/01/01/00/a.parquet",
	"db2/mem/2024/01/01/b.parquet",
	"prod/data/2024/01/01/00/c.parquet", // a measurement called data: the path repeats the backup layout's own segment name
	"wh/db/t/metadata/v1.metadata.json", // Iceberg warehouse metadata (not parquet)
	"db/cpu/notes.txt",                  // neither: not part of a backup
}

func c13InBackupScope(p string) bool {
	return strings.HasSuffix(p, ".parquet") || (strings.Contains(p, "/metadata/") && !strings.HasSuffix(p, ".parquet"))
}

func c13Manager(data, bk storage.Backend) *Manager {
	return &Manager{dataStorage: data, backupStorage: bk, logger: zerolog.Nop()}
}

func c13Data() c13Store {
	data := c13Store{zz.NewFakeBackend()}
	n := zz.ParamInt("files", 3)
	for i, p := range c13Pool {
		if i >= n {
			break
		}
		if i == 0 {
			data.Files[p] = zz.Bytes("content_a", 2) // symbolic content: byte-for-byte fidelity
		} else if zz.Bool("has_" + string(rune('a'+i))) {
			data.Files[p] = []byte{byte('A' + i), 'x'}
		}
	}
	// bulk: fault-free filler files, so that a skipped file stays under the 10% skip
	// ratio and the backup completes
	if bulk := zz.ParamInt("bulk", 0); bulk > 0 {
		data.FaultPaths = map[string]bool{}
		for p := range data.Files {
			data.FaultPaths[p] = true
		}
		for i := 0; i < bulk; i++ {
			data.Files["db/bulk/2024/01/01/00/f"+string(rune('a'+i))+".parquet"] = []byte{byte('a' + i)}
		}
	}
	return data
}

// VerifC13Backup: faults during the backup (source reads, backup writes), then a
// fault-free restore into empty storage.
//   - a backup that reports success records how many inventoried files it does not hold
//   - every file it does hold is byte-identical to the source
//   - restoring it into empty storage reproduces every held file at its original path
func VerifC13Backup() {
	zz.ClockFixed(1700000000_000000000)
	data := c13Data()
	bk := c13Store{zz.NewFakeBackend()}
	m := c13Manager(data, bk)
	data.Faults = true
	data.NoFault["list"] = true
	bk.Faults = zz.Bool("backup_storage_faults")
	res, err := m.CreateBackup(context.Background(), BackupOptions{})
	data.Faults, bk.Faults = false, false
	if err != nil {
		zz.Assert(m.GetProgress() != nil && m.GetProgress().Status == "failed", "a failed backup is not reported as failed")
		zz.Reach("backup-failed")
		return
	}
	id := res.Manifest.BackupID
	stored, err := m.GetBackup(context.Background(), id)
	zz.Assert(err == nil && stored != nil, "a completed backup has no readable manifest")
	if stored == nil {
		return
	}
	missing := int64(0)
	for p, want := range data.Files {
		if !c13InBackupScope(p) {
			_, has := bk.Files[id+"/data/"+p]
			zz.Assert(!has, "a file outside the backup scope was copied")
			continue
		}
		got, has := bk.Files[id+"/data/"+p]
		if !has {
			missing++
			continue
		}
		zz.Assert(zz.EqBytes(got, want), "backed-up file differs from the source file")
	}
	zz.Assert(stored.SkippedFiles == missing, "the backup manifest does not record how many inventoried files the backup does not hold")
	zz.Assert(res.Manifest.SkippedFiles == missing, "the returned manifest does not record the skipped files")
	for p := range bk.Files {
		zz.Assert(!strings.HasSuffix(p, ".part"), "a partial staging file was left in the backup")
	}
	// restore into empty storage, no faults
	fresh := c13Store{zz.NewFakeBackend()}
	m2 := c13Manager(fresh, bk)
	_, rerr := m2.RestoreBackup(context.Background(), RestoreOptions{BackupID: id, RestoreData: true})
	zz.Assert(rerr == nil, "fault-free restore of a completed backup failed")
	for p, want := range data.Files {
		if _, held := bk.Files[id+"/data/"+p]; held {
			got, ok := fresh.Files[p]
			zz.Assert(ok && zz.EqBytes(got, want), "restore did not reproduce a backed-up file byte-for-byte at its original path")
		}
	}
	for p := range fresh.Files {
		_, ok := data.Files[p]
		zz.Assert(ok, "restore created a file that was never in the source")
	}
	zz.Reach("end")
}

// VerifC13Restore: a fault-free backup, then faults during the restore (backup reads,
// data writes): the restore reports success only if every backed-up file is in place.
func VerifC13Restore() {
	zz.ClockFixed(1700000000_000000000)
	data := c13Data()
	bk := c13Store{zz.NewFakeBackend()}
	m := c13Manager(data, bk)
	res, err := m.CreateBackup(context.Background(), BackupOptions{})
	zz.Assert(err == nil && res != nil, "fault-free backup failed")
	if res == nil {
		return
	}
	id := res.Manifest.BackupID
	fresh := c13Store{zz.NewFakeBackend()}
	m2 := c13Manager(fresh, bk)
	bk.Faults = true
	bk.NoFault["list"] = !zz.Bool("list_may_fail")
	if zz.ParamInt("bulk", 0) > 0 {
		// many fault-free filler files: a single unreadable backup file is then a small
		// fraction of the backup (it must fail the restore all the same)
		bk.FaultPaths = map[string]bool{}
		for i, p := range c13Pool {
			if i < zz.ParamInt("files", 3) {
				bk.FaultPaths[id+"/data/"+p] = true
			}
		}
		fresh.FaultPaths = map[string]bool{}
		for i, p := range c13Pool {
			if i < zz.ParamInt("files", 3) {
				fresh.FaultPaths[p] = true
			}
		}
	}
	fresh.Faults = zz.Bool("data_storage_faults")
	_, rerr := m2.RestoreBackup(context.Background(), RestoreOptions{BackupID: id, RestoreData: true})
	bk.Faults, fresh.Faults = false, false
	complete := true
	for p, want := range data.Files {
		if !c13InBackupScope(p) {
			continue
		}
		got, ok := fresh.Files[p]
		if !ok {
			complete = false
			continue
		}
		zz.Assert(zz.EqBytes(got, want), "restored file differs from the backed-up file")
	}
	pr := m2.GetProgress()
	reportedOK := rerr == nil && pr != nil && pr.Status == "completed"
	zz.Assert(!(reportedOK && !complete), "restore reported success although a backed-up file was not restored")
	if rerr != nil {
		zz.Assert(pr != nil && pr.Status == "failed", "a failed restore is not reported as failed")
	}
	zz.Reach("end")
}

// c13BackupID replaces generateBackupID (time + random uuid) under the engine.
func c13BackupID() string { return "backup-20231114-221320-verif000" }
