//go:build verif

package wal

import (
	"context"
	"errors"
	"os"
	"time"

	zz "github.com/basekick-labs/arc/internal/zzverif"
	"github.com/rs/zerolog"
)

// c05Unmarshal stands in for msgpack.Unmarshal (as in the C06 check): it decodes the one
// payload shape the harness appends, [{"k": <fixint>}], and rejects everything else.
func c05Unmarshal(data []byte, v interface{}) error {
	if p, ok := v.(*[]map[string]interface{}); ok {
		if len(data) == 5 && data[0] == 0x91 && data[1] == 0x81 && data[2] == 0xa1 && data[3] == 'k' && data[4] < 0x80 {
			*p = []map[string]interface{}{{"k": int8(data[4])}}
			return nil
		}
		// an entry of n rows: 9n then n x (81 a1 'k' <fixint>)
		if len(data) >= 1 && data[0] >= 0x92 && data[0] <= 0x9f && len(data) == 1+4*int(data[0]-0x90) {
			var rows []map[string]interface{}
			for i := 0; i < int(data[0]-0x90); i++ {
				r := data[1+4*i : 5+4*i]
				if r[0] != 0x81 || r[1] != 0xa1 || r[2] != 'k' || r[3] >= 0x80 {
					return errors.New("c05: not the row shape")
				}
				rows = append(rows, map[string]interface{}{"k": int8(r[3])})
			}
			*p = rows
			return nil
		}
		return errors.New("c05: not the row shape")
	}
	return errors.New("c05: unsupported target")
}

// VerifC05RecoveryWindow: startup recovery over one WAL file of k acknowledged row entries.
// The callbacks hand the rows to the in-memory buffer (that is all WriteColumnarDirectNoWAL
// does: no WAL, no flush). At the moment RecoverWithOptions returns - the process may die
// right there - every acknowledged entry must still be recoverable: its WAL file is still
// on disk, or its rows were made durable.
func VerifC05RecoveryWindow() {
	zz.ClockFixed(1700000000000000000)
	zz.LargeAllocAs(255)
	k := zz.ParamInt("entries", 2)
	w := &Writer{entryChan: make(chan walEntry, 8)}
	var data []byte
	data = append(data, WALMagic...)
	data = append(data, byte(WALVersion>>8), byte(WALVersion), WALChecksumCRC32)
	for i := 0; i < k; i++ {
		zz.Assert(w.AppendRaw([]byte{0x91, 0x81, 0xa1, 'k', byte(i + 1)}) == nil, "append")
		e := <-w.entryChan
		data = append(data, e.data...)
	}
	dir := zz.TempPath("waldir")
	if err := os.MkdirAll(dir, 0o700); err != nil {
		panic(err)
	}
	path := dir + "/arc-20231114_221320.wal"
	if err := os.WriteFile(path, data, 0o600); err != nil {
		panic(err)
	}
	buffered := 0    // rows now only in the in-memory buffer
	failAt := -1     // the buffer rejects the failAt-th batch (schema churn, shutdown ...)
	if zz.Bool("a_replay_fails") {
		failAt = zz.Choice("failing_batch", k)
	}
	calls := 0
	cb := func(ctx context.Context, records []map[string]interface{}) error {
		if calls == failAt {
			calls++
			return errors.New("buffer rejected the batch")
		}
		calls++
		buffered += len(records)
		return nil
	}
	_, err := NewRecovery(dir, zerolog.Nop()).RecoverWithOptions(context.Background(), cb, &RecoveryOptions{})
	zz.Assert(err == nil, "recovery failed")
	_, stillOnDisk := zz.FSFileBytes(path)
	allReplayed := failAt < 0
	// listed finding: the file is deleted once every entry was handed to the buffer,
	// although the rows are then only in memory
	zz.Known("C05-wal-file-deleted-while-recovered-rows-only-in-memory", zz.Symbolic() && allReplayed)
	zz.Assert(stillOnDisk, "recovery deleted the WAL file although its acknowledged rows are not durable anywhere: a crash right after recovery loses them")
	zz.ClearKnown()
	zz.Reach("end")
}

// VerifC05RawAliasing: a raw (zero-copy) columnar write is acknowledged by AppendRawWithMeta,
// whose caller hands it the HTTP request body without a copy. The writer goroutine gets to
// the queued entry only later - after the request returned and the server reused that
// buffer for the next request. What reaches the WAL file must still be the bytes that were
// acknowledged: entry header, envelope, and the ORIGINAL payload.
func VerifC05RawAliasing() {
	zz.ClockFixed(1700000000000000000)
	dir := zz.TempPath("waldir")
	if err := os.MkdirAll(dir, 0o700); err != nil {
		panic(err)
	}
	path := dir + "/arc-20231114_221320.wal"
	f, err := os.OpenFile(path, os.O_CREATE|os.O_WRONLY, 0o600)
	if err != nil {
		panic(err)
	}
	w := &Writer{entryChan: make(chan walEntry, 8), currentFile: f, currentPath: path, startTime: time.Now(),
		config: WriterConfig{SyncBytes: 1 << 40, MaxSizeBytes: 1 << 40, MaxAge: 1000 * time.Hour}, logger: zerolog.Nop()}
	body := zz.Bytes("request_body", 4) // the server's request buffer
	orig := append([]byte(nil), body...)
	zz.Assert(w.AppendRawWithMeta("db", body) == nil, "append")
	e := <-w.entryChan
	// the handler has returned; the next request is read into the same buffer
	next := zz.Bytes("next_request_body", 4)
	copy(body, next)
	w.writeEntry(e) // what writerLoop does with a queued entry
	_ = f.Close()
	got, ok := zz.FSFileBytes(path)
	zz.Assert(ok, "no WAL file")
	env := 1 + 2 + len("db")
	zz.Assert(len(got) == WALEntryHeaderSize+env+len(orig), "the WAL entry does not have the length of what was acknowledged")
	if len(got) == WALEntryHeaderSize+env+len(orig) {
		zz.Assert(zz.EqBytes(got[WALEntryHeaderSize+env:], orig), "the WAL holds other payload bytes than the write that was acknowledged (request buffer reused before the writer goroutine wrote the entry)")
		zz.Assert(got[WALEntryHeaderSize] == WALEnvelopeMarker && string(got[WALEntryHeaderSize+3:WALEntryHeaderSize+env]) == "db", "envelope changed")
	}
	zz.Reach("end")
}

// VerifC05RecoveryBatches: one acknowledged row entry of n rows (1..4) is recovered with a
// replay batch size of 0 (unlimited) to 3: the callbacks receive every row of the entry
// exactly once and in order, however the entry is cut into batches (n smaller than, equal
// to, a multiple of, or not a multiple of the batch size).
func VerifC05RecoveryBatches() {
	zz.ClockFixed(1700000000000000000)
	zz.LargeAllocAs(255)
	n := 1 + zz.Choice("rows", 4)
	bs := zz.Choice("batch_size", 4)
	payload := []byte{byte(0x90 + n)}
	for i := 0; i < n; i++ {
		payload = append(payload, 0x81, 0xa1, 'k', byte(i+1))
	}
	w := &Writer{entryChan: make(chan walEntry, 8)}
	var data []byte
	data = append(data, WALMagic...)
	data = append(data, byte(WALVersion>>8), byte(WALVersion), WALChecksumCRC32)
	zz.Assert(w.AppendRaw(payload) == nil, "append")
	e := <-w.entryChan
	data = append(data, e.data...)
	dir := zz.TempPath("waldir")
	if err := os.MkdirAll(dir, 0o700); err != nil {
		panic(err)
	}
	if err := os.WriteFile(dir+"/arc-20231114_221320.wal", data, 0o600); err != nil {
		panic(err)
	}
	var seen []int8
	cb := func(ctx context.Context, records []map[string]interface{}) error {
		zz.Assert(bs == 0 || len(records) <= bs, "a replay batch is larger than the configured batch size")
		for _, r := range records {
			seen = append(seen, r["k"].(int8))
		}
		return nil
	}
	_, err := NewRecovery(dir, zerolog.Nop()).RecoverWithOptions(context.Background(), cb, &RecoveryOptions{BatchSize: bs})
	zz.Assert(err == nil, "recovery failed")
	zz.Assert(len(seen) == n, "recovery did not replay every acknowledged row of the entry exactly once")
	for i := range seen {
		zz.Assert(seen[i] == int8(i+1), "recovery replayed the rows of an entry out of order")
	}
	zz.Reach("end")
}
