//go:build verif

package ingest

import (
	"context"

	"github.com/basekick-labs/arc/pkg/models"
)

// Exported bridges for the C05/C32 harnesses that live in other packages.

// VerifToWALRecords: the row-format WAL records the live path appends for a columnar
// record without raw payload (line protocol, converted row records).
func VerifToWALRecords(database string, rec *models.ColumnarRecord) []map[string]interface{} {
	return (&ArrowBuffer{}).columnarToWALRecords(database, rec)
}

// VerifTypedToWALRecords: the row-format WAL records of a pre-typed batch (imports, TLE).
func VerifTypedToWALRecords(database, measurement string, batch *TypedColumnBatch, n int) []map[string]interface{} {
	return typedBatchToWALRecords(database, measurement, batch, n, nil)
}

// Observation of what reaches the buffering layer.
type VerifBuffered struct {
	Database    string
	Measurement string
	Columns     map[string][]interface{}
	SkipWAL     bool
}

var VerifObserved []VerifBuffered

// VerifObsInternal replaces (*ArrowBuffer).writeColumnarInternal under the engine: it
// records the (database, measurement, columns) handed to the buffering layer.
func VerifObsInternal(b *ArrowBuffer, ctx context.Context, database string, record *models.ColumnarRecord, skipWAL bool) error {
	VerifObserved = append(VerifObserved, VerifBuffered{Database: database, Measurement: record.Measurement, Columns: record.Columns, SkipWAL: skipWAL})
	return nil
}

func VerifNewBuffer() *ArrowBuffer { return &ArrowBuffer{} }
