//go:build verif

package main

import (
	"context"

	"github.com/basekick-labs/arc/internal/ingest"
	"github.com/basekick-labs/arc/internal/wal"
	zz "github.com/basekick-labs/arc/internal/zzverif"
	"github.com/basekick-labs/arc/pkg/models"
	"github.com/rs/zerolog"
)

var c05ColNames = []string{"host", "v", "database", "_database", "measurement", "_measurement", "m"}

// VerifC05RowReplay: a columnar record written through the live path without raw payload
// (line protocol / converted row records) is appended to the WAL as row-format records;
// after a crash the recovery callback must hand the buffering layer the same database,
// measurement, columns, values and timestamps the live path buffered.
// The msgpack encode/decode between the two is taken as the identity on the value kinds
// used here (string, int64).
func VerifC05RowReplay() {
	db := zz.OneOf("db", "prod", "default")
	meas := zz.OneOf("measurement", "cpu", "mem")
	t := zz.Int64("time_us") // what the live path buffered: microseconds
	col := c05ColNames[zz.Choice("column", len(c05ColNames))]
	var val interface{}
	if zz.Bool("value_is_string") {
		val = zz.OneOf("value", "other", "x", "")
	} else {
		val = zz.Int64("value_int")
	}
	rec := &models.ColumnarRecord{Measurement: meas, Columnar: true, Columns: map[string][]interface{}{
		"time": {t},
		col:    {val},
	}}
	var rows []map[string]interface{}
	if zz.Bool("typed_batch") {
		// imports / TLE: a pre-typed batch without raw payload
		batch := &ingest.TypedColumnBatch{Data: map[string]interface{}{"time": []int64{t}}}
		if sv, isStr := val.(string); isStr {
			batch.Data[col] = []string{sv}
		} else {
			batch.Data[col] = []int64{val.(int64)}
		}
		rows = ingest.VerifTypedToWALRecords(db, meas, batch, 1)
	} else {
		rows = ingest.VerifToWALRecords(db, rec)
	}
	zz.Assert(len(rows) == 1, "one row must produce one WAL record")

	// --- crash; restart: Recovery hands the decoded records to the callback ---
	ingest.VerifObserved = nil
	cb := createWALRecoveryCallback(ingest.VerifNewBuffer(), zerolog.Nop())
	err := cb(context.Background(), rows)
	zz.Assert(err == nil, "replay of an acknowledged row failed")
	zz.Assert(len(ingest.VerifObserved) == 1, "an acknowledged row was not replayed (or replayed more than once)")
	if len(ingest.VerifObserved) != 1 {
		return
	}
	got := ingest.VerifObserved[0]
	zz.Assert(zz.EqStr(got.Database, db), "WAL replay routed the row to another database")
	zz.Assert(zz.EqStr(got.Measurement, meas), "WAL replay routed the row to another measurement")
	// listed finding: the row-format WAL record is a flat map, so a user column that is
	// itself called _database or _measurement cannot coexist with the routing keys
	dropped := col == "_database" || col == "_measurement"
	zz.Known("C05-user-column-named-like-wal-routing-key-dropped", zz.Symbolic() && dropped)
	c, ok := got.Columns[col]
	zz.Assert(ok && len(c) == 1 && c[0] == val, "WAL replay dropped or changed a column")
	zz.Assert(len(got.Columns) == 2, "WAL replay changed the set of columns")
	zz.ClearKnown()
	tc, ok := got.Columns["time"]
	zz.Assert(ok && len(tc) == 1, "WAL replay lost the time column")
	if ok && len(tc) == 1 {
		tv, isInt := tc[0].(int64)
		zz.Assert(isInt && tv == t, "WAL replay changed the timestamp of a row")
	}
	zz.Reach("end")
}

// VerifC05Columnar: entries written through the zero-copy path (raw msgpack columnar
// payload in an envelope) replay with the envelope's database and the payload's
// measurement and columns.
func VerifC05Columnar() {
	db := zz.OneOf("db", "prod", "default", "")
	meas := zz.OneOf("measurement", "cpu", "mem")
	col := c05ColNames[zz.Choice("column", len(c05ColNames))]
	cols := map[string][]interface{}{"time": {int64(1700000000000000)}, col: {zz.OneOf("value", "other", "x")}}
	ingest.VerifObserved = nil
	cb := createColumnarRecoveryCallback(ingest.VerifNewBuffer(), zerolog.Nop())
	var _ wal.ColumnarRecoveryCallback = cb
	zz.Assert(cb(context.Background(), db, meas, cols) == nil, "columnar replay failed")
	zz.Assert(len(ingest.VerifObserved) == 1, "columnar entry not replayed exactly once")
	if len(ingest.VerifObserved) == 1 {
		got := ingest.VerifObserved[0]
		want := db
		if want == "" {
			want = "default"
		}
		zz.Assert(zz.EqStr(got.Database, want) && zz.EqStr(got.Measurement, meas), "columnar WAL replay routed the rows elsewhere")
		c, ok := got.Columns[col]
		zz.Assert(ok && len(c) == 1 && len(got.Columns) == 2, "columnar WAL replay dropped a column")
		zz.Assert(got.SkipWAL, "replayed rows are written to the WAL again")
	}
	zz.Reach("end")
}
