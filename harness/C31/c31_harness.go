//go:build verif

package api

import (
	"strconv"

	"github.com/apache/arrow-go/v18/arrow"
	zz "github.com/basekick-labs/arc/internal/zzverif"
)

// exactMul reports r == n*k as mathematical integers (k > 0), without overflow in the oracle.
func c31ExactMul(r, n, k int64) bool { return zz.And(r/k == n, r%k == 0) }

// VerifC31IntTime: integer epoch -> microseconds. For s/ms the product must be exact
// (an input whose product does not fit must not be silently wrapped); ns divides with
// truncation toward zero; us is the identity; auto-detection uses the decade thresholds.
func VerifC31IntTime() {
	n := zz.Int64("n")
	f := zz.OneOf("format", "epoch_s", "epoch_ms", "epoch_us", "epoch_ns", "")
	r := intTimeToMicros(n, f)
	zz.Known("C31-epoch-product-wraps", zz.Or(
		zz.And(zz.EqStr(f, "epoch_s"), zz.Or(n > 9223372036854, n < -9223372036854)),
		zz.And(zz.EqStr(f, "epoch_ms"), zz.Or(n > 9223372036854775, n < -9223372036854775))))
	zz.Assert(zz.Implies(zz.EqStr(f, "epoch_s"), c31ExactMul(r, n, 1_000_000)), "epoch_s: result is not n*1e6 (wrapped)")
	zz.Assert(zz.Implies(zz.EqStr(f, "epoch_ms"), c31ExactMul(r, n, 1_000)), "epoch_ms: result is not n*1e3 (wrapped)")
	zz.ClearKnown()
	zz.Assert(zz.Implies(zz.EqStr(f, "epoch_us"), r == n), "epoch_us: not the identity")
	zz.Assert(zz.Implies(zz.EqStr(f, "epoch_ns"), r == n/1_000), "epoch_ns: not n/1000")
	// auto: the unit is chosen by magnitude and the conversion for that unit is exact
	abs := zz.IteInt64(n < 0, -n, n)
	auto := zz.EqStr(f, "")
	zz.Assert(zz.Implies(zz.And(auto, zz.And(abs >= 0, abs < 10_000_000_000)), c31ExactMul(r, n, 1_000_000)), "auto: |n|<1e10 not treated as seconds")
	zz.Assert(zz.Implies(zz.And(auto, zz.And(abs >= 10_000_000_000, abs < 10_000_000_000_000)), c31ExactMul(r, n, 1_000)), "auto: 1e10<=|n|<1e13 not treated as milliseconds")
	zz.Assert(zz.Implies(zz.And(auto, zz.And(abs >= 10_000_000_000_000, abs < 10_000_000_000_000_000)), r == n), "auto: 1e13<=|n|<1e16 not treated as microseconds")
	zz.Assert(zz.Implies(zz.And(auto, abs >= 10_000_000_000_000_000), r == n/1_000), "auto: |n|>=1e16 not treated as nanoseconds")
	zz.Reach("end")
}

// VerifC31ArrowTime: Arrow timestamp units.
func VerifC31ArrowTime() {
	v := zz.Int64("v")
	u := zz.Choice("unit", 4)
	unit := []arrow.TimeUnit{arrow.Second, arrow.Millisecond, arrow.Microsecond, arrow.Nanosecond}[u]
	r := arrowTimestampToMicros(v, unit)
	switch unit {
	case arrow.Second:
		zz.Known("C31-epoch-product-wraps", zz.Or(v > 9223372036854, v < -9223372036854))
		zz.Assert(c31ExactMul(r, v, 1_000_000), "arrow seconds: result is not v*1e6 (wrapped)")
	case arrow.Millisecond:
		zz.Known("C31-epoch-product-wraps", zz.Or(v > 9223372036854775, v < -9223372036854775))
		zz.Assert(c31ExactMul(r, v, 1_000), "arrow milliseconds: result is not v*1e3 (wrapped)")
	case arrow.Microsecond:
		zz.Assert(r == v, "arrow microseconds: not the identity")
	default:
		zz.Assert(r == v/1_000, "arrow nanoseconds: not v/1000")
	}
	zz.Reach("end")
}

// VerifC31TimeDispatch: an integer text never goes through float64 (full precision for
// large epochs): for every int64 n, oneTimeValueToMicros(itoa(n), fmt) == intTimeToMicros(n, fmt).
func VerifC31TimeDispatch() {
	f := zz.OneOf("format", "epoch_s", "epoch_ms", "epoch_us", "epoch_ns", "")
	pick := zz.Choice("n", 8)
	n := []int64{0, -1, 1609459200, 1609459200123456789, -9007199254740993, 9007199254740993, 9223372036854775807, 1609459200001000999}[pick]
	got, err := oneTimeValueToMicros(" "+strconv.FormatInt(n, 10)+" ", f)
	zz.Assert(err == nil, "integer epoch text rejected")
	zz.Assert(got == intTimeToMicros(n, f), "integer epoch text took a lossy path")
	// the column path of CSV imports (one conversion per column, not per value)
	col, cerr := stringsToTimeMicros([]string{strconv.FormatInt(n, 10)}, f)
	zz.Assert(cerr == nil && len(col) == 1, "integer epoch column rejected")
	if cerr == nil && len(col) == 1 {
		zz.Assert(col[0] == intTimeToMicros(n, f), "integer epoch column took a lossy path")
	}
	zz.Reach("end")
}

// VerifC31Infer: column inference over k cells of at most m bytes each.
func VerifC31Infer() {
	k := zz.ParamInt("cells", 2)
	m := zz.ParamInt("maxlen", 2)
	raw := make([]string, k)
	for i := range raw {
		if zz.ParamInt("pool", 0) == 1 {
			// cells drawn by the solver from a pool of shapes that matter to the inference
			raw[i] = zz.OneOf("cell", "", "0", "1", "7", "-3", "+5", "true", "FALSE", "1.5", "x", "1e3", "9223372036854775808")
			continue
		}
		raw[i] = zz.String("cell", zz.Len("len", m))
		if zz.ParamInt("ascii", 0) == 1 {
			for j := 0; j < len(raw[i]); j++ {
				zz.Assume(raw[i][j] < 0x80)
			}
		}
	}
	col, valid := inferAndConvertColumn(raw)
	anyEmpty := false
	for _, s := range raw {
		anyEmpty = anyEmpty || s == ""
	}
	switch c := col.(type) {
	case []int64:
		zz.Assert(len(c) == k, "int column: row count changed")
		for i, s := range raw {
			if s == "" {
				zz.Assert(valid != nil && !valid[i], "int column: empty cell not null")
				continue
			}
			n, err := strconv.ParseInt(s, 10, 64)
			zz.Assert(err == nil, "int column holds a cell that is not an integer")
			zz.Assert(c[i] == n, "int cell value differs from its text")
			zz.Assert(valid == nil || valid[i], "int column: non-empty cell marked null")
		}
	case []float64:
		zz.Assert(len(c) == k, "float column: row count changed")
		demoted := false
		for i, s := range raw {
			if s == "" {
				zz.Assert(valid != nil && !valid[i], "float column: empty cell not null")
				continue
			}
			zz.Assert(valid == nil || valid[i], "float column: non-empty cell marked null")
			n, err := strconv.ParseInt(s, 10, 64)
			if err != nil {
				demoted = true
			}
			if !demoted {
				// an integer cell seen before the demotion is migrated from the int buffer
				zz.Assert(c[i] == float64(n), "integer cell of a float column lost its value")
			}
		}
	case []bool:
		zz.Assert(len(c) == k, "bool column: row count changed")
		for i, s := range raw {
			if s == "" {
				zz.Assert(valid != nil && !valid[i], "bool column: empty cell not null")
				continue
			}
			zz.Assert(isBoolLiteral(s), "bool column holds a non-boolean cell")
			zz.Assert(valid == nil || valid[i], "bool column: non-empty cell marked null")
		}
	case []string:
		zz.Assert(len(c) == k, "string column: row count changed")
		zz.Assert(valid == nil, "string column carries nulls")
		for i, s := range raw {
			zz.Assert(zz.EqStr(c[i], s), "string cell changed")
		}
	default:
		zz.Assert(false, "unexpected column type")
	}
	if !anyEmpty {
		zz.Assert(valid == nil, "validity bitmap without empty cells")
	}
	zz.Reach("end")
}
