//go:build verif

package security

import (
	"time"

	zz "github.com/basekick-labs/arc/internal/zzverif"
)

const (
	c26Coord   = "(*github.com/basekick-labs/arc/internal/cluster.Coordinator)."
	c26Main    = "github.com/basekick-labs/arc/cmd/arc.main"
	c26Sec     = "github.com/basekick-labs/arc/internal/cluster/security."
	c26API     = "github.com/basekick-labs/arc/internal/api."
	c26EdgeH   = "(*github.com/basekick-labs/arc/internal/api.EdgeSyncHandler)."
	c26Secret  = "s3cr3t"
	c26Cluster = "c1"
)

// c26Params returns (nonce retention, freshness tolerance) for one message kind,
// read from the constants at the REAL construction / validation call sites.
func c26Params(kind string) (time.Duration, time.Duration) {
	switch kind {
	case "replicate-sync":
		return time.Duration(zz.CallSiteConst(c26Coord+"Start", c26Sec+"NewNonceCache", 0, 0)),
			time.Duration(zz.CallSiteConst(c26Coord+"handleReplicateSync", c26Sec+"ValidateReplicateSyncHMAC", 7, 0))
	case "forward-apply":
		return time.Duration(zz.CallSiteConst(c26Coord+"Start", c26Sec+"NewNonceCache", 0, 0)),
			time.Duration(zz.CallSiteConst(c26Coord+"handleForwardApply", c26Sec+"ValidateForwardHMAC", 7, 0))
	case "cache-invalidate":
		// the handler validates with the tolerance it was constructed with
		return time.Duration(zz.CallSiteConst(c26Main, c26Sec+"NewNonceCache", 0, 1)),
			time.Duration(zz.CallSiteConst(c26Main, c26API+"NewCacheInvalidateHandler", 4, 0))
	case "sync-file":
		return time.Duration(zz.CallSiteConst(c26Main, c26Sec+"NewNonceCache", 0, 0)),
			time.Duration(zz.CallSiteConst(c26EdgeH+"receiveFile", c26Sec+"ValidateSyncFileHMACWithReplay", 9, 0))
	case "sync-reconcile":
		return time.Duration(zz.CallSiteConst(c26Main, c26Sec+"NewNonceCache", 0, 0)),
			time.Duration(zz.CallSiteConst(c26EdgeH+"reconcile", c26Sec+"ValidateSyncReconcileHMACWithReplay", 8, 0))
	}
	panic("unknown kind " + kind)
}

// c26Attempt presents one genuine message (same nonce, same signed timestamp,
// genuine MAC) to the validate-then-track sequence of the real handler.
func c26Attempt(kind string, nc *NonceCache, ts int64, tol time.Duration) bool {
	switch kind {
	case "replicate-sync":
		mac := ComputeReplicateSyncHMAC(c26Secret, "n1", "reader", c26Cluster, 7, ts)
		if ValidateReplicateSyncHMAC(c26Secret, "n1", "reader", c26Cluster, 7, ts, mac, tol) != nil {
			return false
		}
		return nc.Track("reader", "n1")
	case "forward-apply":
		mac := ComputeForwardHMAC(c26Secret, "n1", "node", c26Cluster, []byte("{}"), ts)
		if ValidateForwardHMAC(c26Secret, "n1", "node", c26Cluster, []byte("{}"), ts, mac, tol) != nil {
			return false
		}
		return nc.Track("node", "n1")
	case "cache-invalidate":
		mac := ComputeCacheInvalidateHMAC(c26Secret, "n1", "node", c26Cluster, ts)
		if ValidateCacheInvalidateHMAC(c26Secret, "n1", "node", c26Cluster, ts, mac, tol) != nil {
			return false
		}
		return nc.Track("node", "n1")
	case "sync-file":
		mac, _ := ComputeSyncFileHMAC(c26Secret, "n1", "spoke", "hub", "p/f.parquet", "00", ts)
		return ValidateSyncFileHMACWithReplay(nc, c26Secret, "n1", "spoke", "hub", "p/f.parquet", "00", ts, mac, tol) == nil
	case "sync-reconcile":
		mac, _ := ComputeSyncReconcileHMAC(c26Secret, "n1", "spoke", "hub", []byte("{}"), ts)
		return ValidateSyncReconcileHMACWithReplay(nc, c26Secret, "n1", "spoke", "hub", []byte("{}"), ts, mac, tol) == nil
	}
	panic("unknown kind " + kind)
}

// VerifC26Replay: the same genuine message presented twice, at arbitrary instants
// r0 <= r1 and with an arbitrary signed timestamp, is accepted at most once.
func VerifC26Replay() {
	kind := zz.Param("kind", "forward-apply")
	ttl, tol := c26Params(kind)
	zz.ClockMonotone()
	nc := NewNonceCache(ttl)
	ts := zz.Int64("ts")
	// environment assumption: one request's validation and nonce tracking happen
	// within `gap` of each other (both read the wall clock separately)
	gap := time.Duration(zz.ParamInt("gap_s", 30)) * time.Second
	zz.ClockSpan(gap)
	a1 := c26Attempt(kind, nc, ts, tol)
	r0 := zz.LastNow()
	zz.ClockSpan(-1)
	if zz.ParamInt("evict", 0) == 1 {
		nc.Track("other", "n2") // unrelated traffic, may trigger the lazy eviction sweep
	}
	zz.ClockSpan(gap)
	a2 := c26Attempt(kind, nc, ts, tol)
	r1 := zz.LastNow()
	// listed finding: nonce retention (ttl) is shorter than the span over which a
	// stamp stays fresh (2*tolerance + 1s of timestamp granularity): a replay that
	// arrives once the entry expired is accepted.
	zz.Known("C26-nonce-ttl-shorter-than-stamp-validity", zz.And(!r1.Before(r0.Add(ttl)), ttl < 2*tol+time.Second))
	zz.Assert(!zz.And(a1, a2), "the same (sender, nonce) message was accepted twice")
	zz.Reach("end")
}

// VerifC26Freshness: an attempt whose signed timestamp is outside the tolerance
// (in either direction) at the time of validation is rejected.
func VerifC26Freshness() {
	kind := zz.Param("kind", "forward-apply")
	_, tol := c26Params(kind)
	ts := zz.Int64("ts")
	var err error
	switch kind {
	case "replicate-sync":
		err = ValidateReplicateSyncHMAC(c26Secret, "n1", "reader", c26Cluster, 7, ts, ComputeReplicateSyncHMAC(c26Secret, "n1", "reader", c26Cluster, 7, ts), tol)
	case "forward-apply":
		err = ValidateForwardHMAC(c26Secret, "n1", "node", c26Cluster, []byte("{}"), ts, ComputeForwardHMAC(c26Secret, "n1", "node", c26Cluster, []byte("{}"), ts), tol)
	case "cache-invalidate":
		err = ValidateCacheInvalidateHMAC(c26Secret, "n1", "node", c26Cluster, ts, ComputeCacheInvalidateHMAC(c26Secret, "n1", "node", c26Cluster, ts), tol)
	case "sync-file":
		mac, _ := ComputeSyncFileHMAC(c26Secret, "n1", "spoke", "hub", "p/f.parquet", "00", ts)
		err = ValidateSyncFileHMAC(c26Secret, "n1", "spoke", "hub", "p/f.parquet", "00", ts, mac, tol)
	case "sync-reconcile":
		mac, _ := ComputeSyncReconcileHMAC(c26Secret, "n1", "spoke", "hub", []byte("{}"), ts)
		err = ValidateSyncReconcileHMAC(c26Secret, "n1", "spoke", "hub", []byte("{}"), ts, mac, tol)
	}
	now := zz.LastNow().Unix()
	tolS := int64(tol / time.Second)
	fresh := zz.And(now-ts <= tolS, ts-now <= tolS)
	zz.Assert(zz.Implies(err == nil, fresh), "a message whose timestamp is outside the tolerance was accepted")
	zz.Assert(zz.Implies(fresh, err == nil), "a genuine message inside the tolerance was rejected")
	zz.Reach("end")
}
