//go:build verif

package api

import (
	sqlutil "github.com/basekick-labs/arc/internal/sql"
	zz "github.com/basekick-labs/arc/internal/zzverif"
)

// ---- reference lexer, written from the PostgreSQL / DuckDB scanner rules ----
//   -- ... end of line            line comment (the newline is not part of it)
//   /* ... */                     block comment, NESTED
//   '...'   ('' escapes a quote; a backslash is an ordinary character)
//   E'...'  (backslash escapes the next byte; '' also escapes) when E is not part of an identifier
//   "..."   quoted identifier ("" escapes)
//   $tag$...$tag$  dollar-quoted literal; tag empty or identifier-like, not starting with a
//                  digit; a '$' right after an identifier character does not open a quote
// Unterminated constructs extend to the end of the input.

type c15Span struct {
	kind  byte // 'S' literal, 'I' identifier, 'L' line comment, 'B' block comment
	start int
	end   int
}

func c15IsIdent(c byte) bool {
	return c == '_' || (c >= 'a' && c <= 'z') || (c >= 'A' && c <= 'Z') || (c >= '0' && c <= '9')
}

func c15Lex(s string) []c15Span {
	var out []c15Span
	i := 0
	for i < len(s) {
		c := s[i]
		switch {
		case c == '-' && i+1 < len(s) && s[i+1] == '-':
			j := i
			for j < len(s) && s[j] != '\n' {
				j++
			}
			out = append(out, c15Span{'L', i, j})
			i = j
		case c == '/' && i+1 < len(s) && s[i+1] == '*':
			depth := 1
			j := i + 2
			for j < len(s) && depth > 0 {
				if j+1 < len(s) && s[j] == '/' && s[j+1] == '*' {
					depth++
					j += 2
				} else if j+1 < len(s) && s[j] == '*' && s[j+1] == '/' {
					depth--
					j += 2
				} else {
					j++
				}
			}
			out = append(out, c15Span{'B', i, j})
			i = j
		case c == '\'' || c == '"':
			j := i + 1
			for j < len(s) {
				if s[j] == c {
					if j+1 < len(s) && s[j+1] == c {
						j += 2
						continue
					}
					j++
					break
				}
				j++
			}
			k := byte('S')
			if c == '"' {
				k = 'I'
			}
			out = append(out, c15Span{k, i, j})
			i = j
		case (c == 'e' || c == 'E') && i+1 < len(s) && s[i+1] == '\'' && (i == 0 || !c15IsIdent(s[i-1])):
			j := i + 2
			for j < len(s) {
				if s[j] == '\\' && j+1 < len(s) {
					j += 2
					continue
				}
				if s[j] == '\'' {
					if j+1 < len(s) && s[j+1] == '\'' {
						j += 2
						continue
					}
					j++
					break
				}
				j++
			}
			out = append(out, c15Span{'S', i, j})
			i = j
		case c == '$' && (i == 0 || !c15IsIdent(s[i-1])):
			// tag
			j := i + 1
			ok := true
			for j < len(s) && s[j] != '$' {
				d := s[j]
				alpha := (d >= 'a' && d <= 'z') || (d >= 'A' && d <= 'Z') || d == '_'
				digit := d >= '0' && d <= '9'
				if !alpha && !(digit && j > i+1) {
					ok = false
					break
				}
				j++
			}
			if !ok || j >= len(s) {
				i++
				continue
			}
			tag := s[i : j+1] // $tag$
			k := j + 1
			end := len(s)
			for k+len(tag) <= len(s) {
				if s[k:k+len(tag)] == tag {
					end = k + len(tag)
					break
				}
				k++
			}
			out = append(out, c15Span{'S', i, end})
			i = end
		default:
			i++
		}
	}
	return out
}

// c15RefStrip: the input with every comment removed the way stripSQLComments documents it
// (line comment removed, its newline kept; block comment replaced by one space).
func c15RefStrip(s string, spans []c15Span) string {
	var out []byte
	pos := 0
	for _, sp := range spans {
		if sp.kind == 'L' || sp.kind == 'B' {
			out = append(out, s[pos:sp.start]...)
			if sp.kind == 'B' {
				out = append(out, ' ')
			}
			pos = sp.end
		}
	}
	out = append(out, s[pos:]...)
	return string(out)
}

var c15Alphabet = []byte{'\'', '"', '$', '\\', '-', '/', '*', '\n', 'e', 'E', 'a', '0', ' ', '_', ';'}

func c15Input(maxlen int) string {
	n := zz.Len("len", maxlen)
	b := zz.Bytes("sql", n)
	alphabet := c15Alphabet
	if zz.Param("alphabet", "") == "dollar" {
		// a small alphabet for longer inputs around dollar-quoted strings: bodies that
		// begin with '$' or with the tag text, empty bodies, tags next to quotes
		alphabet = []byte{'$', 't', 'a', ' ', '\''}
	}
	for i := range b {
		in := false
		for _, a := range alphabet {
			in = zz.Or(in, b[i] == a)
		}
		zz.Assume(in)
	}
	return string(b)
}

// VerifC15RoundTrip: masking followed by unmasking is the identity, and the fast-path
// gates never skip work that would have changed something.
func VerifC15RoundTrip() {
	var s string
	if zz.ParamInt("tokens", 0) > 0 {
		k := zz.ParamInt("tokens", 3)
		for i := 0; i < k; i++ {
			s += zz.OneOf("tok", "", "'a'", "\"i\"", "__STR_0__", "__IDENT_0__", "__STR_1__", "$$x$$", "$t$y$t$", "E'b'", "\"I\"", " ", "--", "\n", "/*", "*/", "'", "\"", "x")
		}
	} else {
		s = c15Input(zz.ParamInt("maxlen", 4))
	}
	hq := sqlutil.HasQuotes(s)
	masked, masks := sqlutil.MaskStringLiterals(s, hq)
	back := sqlutil.UnmaskStringLiterals(masked, masks)
	// listed finding: the input itself contains the text of a placeholder that masking
	// hands out for this input (e.g. a column called __STR_0__ next to a literal)
	lookalike := false
	for _, m := range masks {
		for i := 0; i+len(m.Placeholder) <= len(s); i++ {
			lookalike = lookalike || s[i:i+len(m.Placeholder)] == m.Placeholder
		}
	}
	zz.Known("C15-placeholder-lookalike-in-input", lookalike)
	zz.Assert(zz.EqStr(back, s), "MaskStringLiterals followed by UnmaskStringLiterals is not the identity")
	zz.ClearKnown()
	// gate soundness: with hasQuotes == false nothing may need masking
	f := scanSQLFeatures(s)
	if !f.hasQuotes {
		m2, k2 := sqlutil.MaskStringLiterals(s, true)
		zz.Assert(len(k2) == 0 && m2 == s, "scanSQLFeatures reports no quotes but the masker finds a literal")
	}
	if !hq {
		m2, k2 := sqlutil.MaskStringLiterals(s, true)
		zz.Assert(len(k2) == 0 && m2 == s, "HasQuotes is false but the masker finds a literal")
	}
	if !f.hasDashComment && !f.hasBlockComment {
		zz.Assert(stripSQLComments(s, true) == s, "scanSQLFeatures reports no comments but the stripper changes the text")
	}
	// FROM-in-function-body masking round trip
	fm, fmasks := sqlutil.MaskFromKeywordsInFunctionBodies(s)
	zz.Assert(zz.EqStr(sqlutil.UnmaskFromKeywordsInFunctionBodies(fm, fmasks), s), "FROM-keyword masking followed by unmasking is not the identity")
	zz.Reach("end")
}

// VerifC15Lexer: the spans Arc masks and the comments it strips are exactly those of the
// reference lexer.
func VerifC15Lexer() {
	s := c15Input(zz.ParamInt("maxlen", 4))
	spans := c15Lex(s)
	// listed findings, by input class
	quoteInComment, backslashQuote := false, false
	for _, sp := range spans {
		if sp.kind == 'L' || sp.kind == 'B' {
			for i := sp.start; i < sp.end; i++ {
				if s[i] == '\'' || s[i] == '"' || s[i] == '$' {
					quoteInComment = true
				}
			}
		}
	}
	for i := 0; i+1 < len(s); i++ {
		if s[i] == '\\' && (s[i+1] == '\'' || s[i+1] == '"') {
			backslashQuote = true
		}
	}
	zz.Known("C15-quote-inside-comment", zz.Symbolic() && quoteInComment)
	zz.Known("C15-backslash-before-quote", zz.Symbolic() && backslashQuote)

	f := scanSQLFeatures(s)
	masked, masks := sqlutil.MaskStringLiterals(s, f.hasQuotes)
	stripped := stripSQLComments(masked, f.hasDashComment || f.hasBlockComment)
	got := sqlutil.UnmaskStringLiterals(stripped, masks)
	want := c15RefStrip(s, spans)
	zz.Assert(zz.EqStr(got, want), "comment stripping removed or kept different text than DuckDB's lexer would")

	// literal / identifier spans: same tokens in the same order
	var lits, idents []string
	for _, sp := range spans {
		if sp.kind == 'S' {
			lits = append(lits, s[sp.start:sp.end])
		}
		if sp.kind == 'I' {
			dup := false
			for _, x := range idents {
				dup = dup || x == s[sp.start:sp.end]
			}
			if !dup {
				idents = append(idents, s[sp.start:sp.end])
			}
		}
	}
	var gl, gi []string
	for _, m := range masks {
		if m.Identifier {
			gi = append(gi, m.Original)
		} else {
			gl = append(gl, m.Original)
		}
	}
	same := len(gl) == len(lits) && len(gi) == len(idents)
	if same {
		for i := range gl {
			same = same && gl[i] == lits[i]
		}
		for i := range gi {
			same = same && gi[i] == idents[i]
		}
	}
	zz.Assert(same, "masked literal/identifier spans differ from the spans DuckDB's lexer delimits")
	zz.Reach("end")
}
