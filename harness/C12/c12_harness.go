//go:build verif

package tiering

import (
	"context"
	"errors"
	"io"
	"time"

	zz "github.com/basekick-labs/arc/internal/zzverif"
	"github.com/rs/zerolog"
)

// ---- model of the tiering metadata table (SQLite): one row, the file's tier ----

var c12Tier Tier
var c12UpdateFails bool

func c12RecordMigration(s *MetadataStore, ctx context.Context, r *MigrationRecord) (int64, error) {
	return 1, nil
}
func c12CompleteMigration(s *MetadataStore, ctx context.Context, id int64, err error) error {
	return nil
}
func c12UpdateTier(s *MetadataStore, ctx context.Context, path string, t Tier) error {
	if c12UpdateFails {
		return errors.New("sqlite busy")
	}
	c12Tier = t
	return nil
}
func c12GetFile(s *MetadataStore, ctx context.Context, path string) (*FileMetadata, error) {
	if zz.Bool("metadata_lookup_fails") {
		return nil, errors.New("sqlite busy")
	}
	return &FileMetadata{Path: c12Path, Database: "db", Measurement: "m", Tier: c12Tier, SizeBytes: 4}, nil
}
func c12Recent(s *MetadataStore, ctx context.Context, tier Tier, window time.Duration) ([]FileMetadata, error) {
	if c12Tier == tier {
		return []FileMetadata{{Path: c12Path, Database: "db", Measurement: "m", Tier: tier, SizeBytes: 4}}, nil
	}
	return nil, nil
}

const c12Path = "db/m/2024/01/01/00/f.parquet"

// c12Hot: the hot backend, whose streaming read may fail after k bytes.
type c12Hot struct{ *zz.FakeBackend }

func (h c12Hot) ReadTo(ctx context.Context, path string, w io.Writer) error {
	b, ok := h.Files[path]
	if !ok {
		return errors.New("not found")
	}
	if h.Faults && zz.Choice("source_read_fails", 2) == 1 {
		k := zz.Choice("after_bytes", len(b))
		_, _ = w.Write(b[:k])
		return errors.New("read: connection reset")
	}
	_, err := w.Write(b)
	return err
}

// VerifC12Migrate: MigrateFile hot -> cold with a failure possible at every step (source
// read after any number of bytes, destination write, metadata update, source delete),
// followed by a fault-free reconciliation pass.
//   - at every moment the complete file is readable from the tier the metadata names
//   - after reconciliation exactly one tier holds the file, the one the metadata names
func VerifC12Migrate() {
	content := zz.Bytes("content", 4)
	hot := c12Hot{zz.NewFakeBackend()}
	cold := zz.NewFakeBackend()
	hot.Files[c12Path] = content
	c12Tier = TierHot
	mgr := &Manager{hotBackend: hot, coldBackend: cold, metadata: &MetadataStore{}, logger: zerolog.Nop()}
	m := NewMigrator(&MigratorConfig{Manager: mgr, Logger: zerolog.Nop()})
	hot.Faults = true
	hot.NoFault["exists"] = true
	cold.Faults = zz.Bool("cold_faults")
	c12UpdateFails = zz.Bool("metadata_update_fails")
	err := m.MigrateFile(context.Background(), MigrationCandidate{Path: c12Path, Database: "db", Measurement: "m", SizeBytes: 4, CurrentTier: TierHot, TargetTier: TierCold})
	cand := MigrationCandidate{Path: c12Path, Database: "db", Measurement: "m", SizeBytes: 4, CurrentTier: TierHot, TargetTier: TierCold}
	second := zz.Bool("stale_candidate_migrated_again")
	if second {
		// a cron cycle and a manual migrate both listed the file while it was hot: the
		// second one works through its stale candidate after the first has finished
		cold.Faults = zz.Bool("cold_faults_2")
		c12UpdateFails = zz.Bool("metadata_update_fails_2")
		_ = m.MigrateFile(context.Background(), cand)
		zz.Reach("second-attempt")
	}
	hot.Faults, cold.Faults, c12UpdateFails = false, false, false

	check := func(when string) {
		var holder map[string][]byte
		if c12Tier == TierCold {
			holder = cold.Files
		} else {
			holder = hot.Files
		}
		got, ok := holder[c12Path]
		zz.Assert(ok && zz.EqBytes(got, content), "the complete file is not readable from the tier the metadata names ("+when+")")
	}
	check("after the migration")
	if err == nil {
		zz.Assert(c12Tier == TierCold, "a migration that reported success left the metadata on the source tier")
	}
	_, _, rerrs := m.ReconcileOrphanedFiles(context.Background())
	zz.Assert(rerrs == 0, "fault-free reconciliation reported errors")
	check("after reconciliation")
	_, inHot := hot.Files[c12Path]
	_, inCold := cold.Files[c12Path]
	if c12Tier == TierCold {
		zz.Assert(!inHot, "after reconciliation the file is still visible in both tiers")
	} else {
		// metadata says hot: a cold copy is tolerated only if it is complete (it is invisible
		// to queries routed by metadata); a truncated cold object is garbage but not visible
		_ = inCold
	}
	zz.Reach("end")
}
