//go:build verif

package tiering

import (
	"context"
	"database/sql"
	"errors"
	"io"
	"strings"
	"time"

	zz "github.com/basekick-labs/arc/internal/zzverif"
	"github.com/rs/zerolog"
)

// ---- model of the tiering metadata table (SQLite): one row, the file's tier ----

var c12Tier Tier
var c12UpdateFails bool

func c12RecordMigration(s *MetadataStore, ctx context.Context, r *MigrationRecord) (int64, error) {
	return 1, nil
}
func c12CompleteMigration(s *MetadataStore, ctx context.Context, id int64, err error) error {
	return nil
}

// The tier column of the one metadata row, as the statements of UpdateTier treat it. The
// real UpdateTier runs; its two statements are interpreted from their text: the lookup
// SELECT fills database/measurement, the UPDATE ... WHERE path = ? sets the tier and reports
// one affected row; an extra "AND tier != ?" makes it report zero rows when the tier is
// already the new one. Any other statement is out of model.
type c12Result struct{ n int64 }

func (r c12Result) LastInsertId() (int64, error) { return 0, nil }
func (r c12Result) RowsAffected() (int64, error) { return r.n, nil }

func c12QueryRowContext(db *sql.DB, ctx context.Context, q string, args ...interface{}) *sql.Row {
	return &sql.Row{}
}
func c12RowScan(r *sql.Row, dest ...interface{}) error {
	if len(dest) == 2 {
		*dest[0].(*string), *dest[1].(*string) = "db", "m"
		return nil
	}
	zz.OutOfModel("row scan with other than two destinations")
	return nil
}
func c12ExecContext(db *sql.DB, ctx context.Context, q string, args ...interface{}) (sql.Result, error) {
	flat := strings.Join(strings.Fields(q), " ")
	if c12HotStore != nil && !c12OtherDone && zz.Bool("another_attempt_completed_between_copy_and_update") {
		// an overlapping attempt for the same file (scheduled cycle and manual trigger are not
		// serialised) ran from start to finish while this one was between its copy and its
		// metadata update: the cold copy is complete (it wrote the same bytes), the metadata
		// says cold, the hot copy is deleted
		c12OtherDone = true
		c12Tier = TierCold
		delete(c12HotStore.Files, c12Path)
		zz.Reach("overlapped-inside-the-window")
	}
	if c12UpdateFails {
		return nil, errors.New("sqlite busy")
	}
	switch flat {
	case "UPDATE tier_files SET tier = ?, migrated_at = CURRENT_TIMESTAMP WHERE path = ?":
		c12Tier = Tier(args[0].(string))
		return c12Result{1}, nil
	case "UPDATE tier_files SET tier = ?, migrated_at = CURRENT_TIMESTAMP WHERE path = ? AND tier != ?":
		if string(c12Tier) == args[0].(string) {
			return c12Result{0}, nil
		}
		c12Tier = Tier(args[0].(string))
		return c12Result{1}, nil
	}
	zz.OutOfModel("metadata statement " + flat)
	return nil, nil
}

var c12Overlapped bool
var c12OtherDone bool
var c12HotStore *zz.FakeBackend
var c12StaleLookup bool // the lookup of an overlapping attempt happened before the other attempt moved the tier

func c12GetFile(s *MetadataStore, ctx context.Context, path string) (*FileMetadata, error) {
	if zz.Bool("metadata_lookup_fails") {
		return nil, errors.New("sqlite busy")
	}
	t := c12Tier
	if c12StaleLookup {
		// only the lookup at the start of the overlapping attempt is stale; a later one
		// (the rollback's) reads the current row
		c12StaleLookup = false
		t = TierHot
	}
	return &FileMetadata{Path: c12Path, Database: "db", Measurement: "m", Tier: t, SizeBytes: 4}, nil
}
func c12Recent(s *MetadataStore, ctx context.Context, tier Tier, window time.Duration) ([]FileMetadata, error) {
	if c12Tier == tier {
		return []FileMetadata{{Path: c12Path, Database: "db", Measurement: "m", Tier: tier, SizeBytes: 4}}, nil
	}
	return nil, nil
}

const c12Path = "db/m/2024/01/01/00/f.parquet"

// c12Hot: the hot backend, whose streaming read may fail after k bytes.
type c12Hot struct{ *zz.FakeBackend }

func (h c12Hot) ReadTo(ctx context.Context, path string, w io.Writer) error {
	b, ok := h.Files[path]
	if !ok {
		return errors.New("not found")
	}
	if h.Faults && zz.Choice("source_read_fails", 2) == 1 {
		k := zz.Choice("after_bytes", len(b))
		_, _ = w.Write(b[:k])
		return errors.New("read: connection reset")
	}
	_, err := w.Write(b)
	return err
}

// VerifC12Migrate: MigrateFile hot -> cold with a failure possible at every step (source
// read after any number of bytes, destination write, metadata update, source delete),
// followed by a fault-free reconciliation pass.
//   - at every moment the complete file is readable from the tier the metadata names
//   - after reconciliation exactly one tier holds the file, the one the metadata names
func VerifC12Migrate() {
	content := zz.Bytes("content", 4)
	hot := c12Hot{zz.NewFakeBackend()}
	cold := zz.NewFakeBackend()
	hot.Files[c12Path] = content
	c12HotStore, c12OtherDone = hot.FakeBackend, false
	c12Tier = TierHot
	mgr := &Manager{hotBackend: hot, coldBackend: cold, metadata: &MetadataStore{tierCache: map[string]*tierCacheEntry{}}, logger: zerolog.Nop()}
	m := NewMigrator(&MigratorConfig{Manager: mgr, Logger: zerolog.Nop()})
	hot.Faults = true
	hot.NoFault["exists"] = true
	cold.Faults = zz.Bool("cold_faults")
	c12UpdateFails = zz.Bool("metadata_update_fails")
	err := m.MigrateFile(context.Background(), MigrationCandidate{Path: c12Path, Database: "db", Measurement: "m", SizeBytes: 4, CurrentTier: TierHot, TargetTier: TierCold})
	cand := MigrationCandidate{Path: c12Path, Database: "db", Measurement: "m", SizeBytes: 4, CurrentTier: TierHot, TargetTier: TierCold}
	c12Overlapped = false
	second := zz.Bool("stale_candidate_migrated_again")
	if second {
		// a cron cycle and a manual migrate both listed the file while it was hot: the
		// second one works through its stale candidate after the first has finished
		cold.Faults = zz.Bool("cold_faults_2")
		c12UpdateFails = zz.Bool("metadata_update_fails_2")
		// ... or overlaps with it: its "already migrated?" lookup ran while the file was
		// still hot, the rest of it runs after the first attempt finished
		c12StaleLookup = zz.Bool("second_attempt_overlapped_the_first")
		c12Overlapped = c12StaleLookup
		_ = m.MigrateFile(context.Background(), cand)
		c12StaleLookup = false
		zz.Reach("second-attempt")
	}
	hot.Faults, cold.Faults, c12UpdateFails = false, false, false
	interleaved := c12OtherDone
	c12HotStore = nil

	check := func(when string) {
		var holder map[string][]byte
		if c12Tier == TierCold {
			holder = cold.Files
		} else {
			holder = hot.Files
		}
		got, ok := holder[c12Path]
		zz.Assert(ok && zz.EqBytes(got, content), "the complete file is not readable from the tier the metadata names ("+when+")")
	}
	// Between the attempts and reconciliation the property asks for the complete contents in
	// at least one tier. That the metadata-named tier holds them is required of a single
	// attempt and after reconciliation; two overlapping attempts of which the second fails
	// its metadata update may leave the metadata pointing at the tier its rollback emptied
	// until reconciliation repairs it (the file is still complete in the other tier).
	hg, hok := hot.Files[c12Path]
	cg, cok := cold.Files[c12Path]
	zz.Assert((hok && zz.EqBytes(hg, content)) || (cok && zz.EqBytes(cg, content)), "the complete file is readable from no tier (after the migration)")
	if !(second && c12Overlapped) && !interleaved {
		check("after the migration")
	}
	if err == nil {
		zz.Assert(c12Tier == TierCold, "a migration that reported success left the metadata on the source tier")
	}
	_, _, rerrs := m.ReconcileOrphanedFiles(context.Background())
	zz.Assert(rerrs == 0, "fault-free reconciliation reported errors")
	check("after reconciliation")
	_, inHot := hot.Files[c12Path]
	_, inCold := cold.Files[c12Path]
	if c12Tier == TierCold {
		zz.Assert(!inHot, "after reconciliation the file is still visible in both tiers")
	} else {
		// metadata says hot: a cold copy is tolerated only if it is complete (it is invisible
		// to queries routed by metadata); a truncated cold object is garbage but not visible
		_ = inCold
	}
	zz.Reach("end")
}
