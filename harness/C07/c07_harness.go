//go:build verif

package ingest

import (
	"time"
	"context"

	"github.com/basekick-labs/arc/internal/config"
	zz "github.com/basekick-labs/arc/internal/zzverif"
	"github.com/basekick-labs/arc/pkg/models"
	"github.com/rs/zerolog"
)

func c07Buffer(maxBuffer, queueCap int) *ArrowBuffer {
	b := &ArrowBuffer{
		config:      &config.IngestConfig{MaxBufferSize: maxBuffer},
		shards:      []*bufferShard{{buffers: map[string][]interface{}{}, bufferStartTimes: map[string]time.Time{}, bufferRecordCounts: map[string]int{}, bufferSchemas: map[string]string{}}},
		shardCount:  1,
		ctx:         context.Background(),
		newBufferCh: make(chan struct{}, 1),
		flushQueue:  make(chan flushTask, queueCap),
		logger:      zerolog.Nop(),
	}
	return b
}

// VerifC07NoWAL: with the WAL disabled, a write that returns nil (is acknowledged) has
// its rows either still in the in-memory buffer or in a flush task that reached the
// worker queue - also when the queue is already full.
func VerifC07NoWAL() {
	zz.ClockFixed(1700000000000000000)
	maxBuf := zz.ParamInt("max_buffer", 2)
	queueCap := zz.ParamInt("queue_cap", 1)
	b := c07Buffer(maxBuf, queueCap)
	if zz.Bool("queue_already_full") {
		b.flushQueue <- flushTask{bufferKey: "other"}
	}
	writes := zz.ParamInt("writes", 2)
	acked := 0
	for i := 0; i < writes; i++ {
		rec := &models.ColumnarRecord{Measurement: "cpu", Columnar: true, Columns: map[string][]interface{}{"time": {int64(1700000000000000 + i)}, "v": {int64(i)}}}
		var err error
		if zz.Bool("typed_path") {
			err = b.writeTypedColumnarRaw(context.Background(), "db", "cpu", &TypedColumnBatch{Data: map[string]interface{}{"time": []int64{int64(1700000000000000 + i)}, "v": []int64{int64(i)}}, Signature: "time:i64,v:i64"}, 1, nil, false)
		} else {
			err = b.writeColumnarInternal(context.Background(), "db", rec, false)
		}
		if err == nil {
			acked++
		}
	}
	// rows that are still somewhere the process will flush them from
	held := b.shards[0].bufferRecordCounts["db/cpu"]
	for len(b.flushQueue) > 0 {
		t := <-b.flushQueue
		if t.bufferKey == "db/cpu" {
			held += t.recordCount
		}
	}
	dropped := acked - held
	zz.Known("C07-queue-full-drop-acknowledged-without-wal", zz.Symbolic() && dropped > 0)
	zz.Assert(held >= acked, "WAL disabled: a write was acknowledged although its rows are neither buffered nor queued for a flush (dropped on a full flush queue)")
	zz.ClearKnown()
	zz.Reach("end")
}
