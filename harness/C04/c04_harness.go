//go:build verif

package ingest

import (
	zz "github.com/basekick-labs/arc/internal/zzverif"
	"github.com/rs/zerolog"
)

func c04Col(name string, row int64) interface{} {
	switch zz.Choice("type_"+name, 4) {
	case 0:
		return []int64{row}
	case 1:
		return []float64{float64(row)}
	case 2:
		return []string{"s"}
	default:
		return []bool{true}
	}
}

var c04Names = []string{"", "_a", "a", "time2"}

// VerifC04Merge: two typed batches of one measurement that the write path puts into the
// same buffer (equal column signatures - that is the only condition writeColumnarInternal
// and writeTypedColumnarRaw test before appending) are merged by the flush without a
// run-time panic, and every row is kept. The batches come from two different requests, so
// a column may change its Go type between them; unusual names (empty, underscore-prefixed)
// are in the pool.
func VerifC04Merge() {
	n1 := c04Names[zz.Choice("name_1", len(c04Names))]
	n2 := c04Names[zz.Choice("name_2", len(c04Names))]
	b1 := &TypedColumnBatch{Data: map[string]interface{}{"time": []int64{1}, n1: c04Col("1", 1)}}
	b2 := &TypedColumnBatch{Data: map[string]interface{}{"time": []int64{2}, n2: c04Col("2", 2)}}
	if zz.Bool("validity_1") {
		b1.Validity = map[string][]bool{n1: {false}}
	}
	s1, s2 := getColumnSignature(b1.Data), getColumnSignature(b2.Data)
	if s1 != s2 {
		zz.Reach("separate-buffers")
		return
	}
	merged, err := (&ArrowBuffer{}).mergeBatches([]interface{}{b1, b2})
	zz.Assert(err == nil && merged != nil, "merge of two batches of one buffer failed")
	if merged == nil {
		return
	}
	tc, ok := merged.Data["time"].([]int64)
	zz.Assert(ok && len(tc) == 2 && tc[0] == 1 && tc[1] == 2, "merge lost or reordered rows")
	for name, col := range merged.Data {
		switch v := col.(type) {
		case []int64:
			zz.Assert(len(v) == 2, "merged column "+name+" has the wrong length")
		case []float64:
			zz.Assert(len(v) == 2, "merged column "+name+" has the wrong length")
		case []string:
			zz.Assert(len(v) == 2, "merged column "+name+" has the wrong length")
		case []bool:
			zz.Assert(len(v) == 2, "merged column "+name+" has the wrong length")
		}
	}
	zz.Reach("end")
}

func c04SameType(a, b interface{}) bool {
	switch a.(type) {
	case []int64:
		_, ok := b.([]int64)
		return ok
	case []float64:
		_, ok := b.([]float64)
		return ok
	case []string:
		_, ok := b.([]string)
		return ok
	case []bool:
		_, ok := b.([]bool)
		return ok
	}
	return false
}

// VerifC04Schema: the schema lookup of the flush path does not panic on any column name
// the decoders let through (the schema inference itself - Arrow - is cut).
func VerifC04Schema() {
	name := c04Names[zz.Choice("name", len(c04Names))]
	cols := map[string]interface{}{"time": []int64{1}, name: c04Col("c", 1)}
	w := &ArrowWriter{logger: zerolog.Nop()}
	_, _ = w.getSchema("cpu", cols, nil, false, nil)
	zz.Reach("end")
}
