//go:build verif

package ingest

import (
	"context"

	zz "github.com/basekick-labs/arc/internal/zzverif"
	"github.com/basekick-labs/arc/pkg/models"
	"github.com/rs/zerolog"
)

func c04Col(name string, row int64) interface{} {
	switch zz.Choice("type_"+name, 4) {
	case 0:
		return []int64{row}
	case 1:
		return []float64{float64(row)}
	case 2:
		return []string{"s"}
	default:
		return []bool{true}
	}
}

var c04Names = []string{"", "_a", "a", "time2"}

// VerifC04Merge: two typed batches of one measurement that the write path puts into the
// same buffer (equal column signatures - that is the only condition writeColumnarInternal
// and writeTypedColumnarRaw test before appending) are merged by the flush without a
// run-time panic, and every row is kept. The batches come from two different requests, so
// a column may change its Go type between them; unusual names (empty, underscore-prefixed)
// are in the pool.
func VerifC04Merge() {
	n1 := c04Names[zz.Choice("name_1", len(c04Names))]
	n2 := c04Names[zz.Choice("name_2", len(c04Names))]
	b1 := &TypedColumnBatch{Data: map[string]interface{}{"time": []int64{1}, n1: c04Col("1", 1)}}
	b2 := &TypedColumnBatch{Data: map[string]interface{}{"time": []int64{2}, n2: c04Col("2", 2)}}
	if zz.Bool("validity_1") {
		b1.Validity = map[string][]bool{n1: {false}}
	}
	s1, s2 := getColumnSignature(b1.Data), getColumnSignature(b2.Data)
	if s1 != s2 {
		zz.Reach("separate-buffers")
		return
	}
	merged, err := (&ArrowBuffer{}).mergeBatches([]interface{}{b1, b2})
	zz.Assert(err == nil && merged != nil, "merge of two batches of one buffer failed")
	if merged == nil {
		return
	}
	tc, ok := merged.Data["time"].([]int64)
	zz.Assert(ok && len(tc) == 2 && tc[0] == 1 && tc[1] == 2, "merge lost or reordered rows")
	for name, col := range merged.Data {
		switch v := col.(type) {
		case []int64:
			zz.Assert(len(v) == 2, "merged column "+name+" has the wrong length")
		case []float64:
			zz.Assert(len(v) == 2, "merged column "+name+" has the wrong length")
		case []string:
			zz.Assert(len(v) == 2, "merged column "+name+" has the wrong length")
		case []bool:
			zz.Assert(len(v) == 2, "merged column "+name+" has the wrong length")
		}
	}
	zz.Reach("end")
}

func c04SameType(a, b interface{}) bool {
	switch a.(type) {
	case []int64:
		_, ok := b.([]int64)
		return ok
	case []float64:
		_, ok := b.([]float64)
		return ok
	case []string:
		_, ok := b.([]string)
		return ok
	case []bool:
		_, ok := b.([]bool)
		return ok
	}
	return false
}

// VerifC04Schema: the schema lookup of the flush path does not panic on any column name
// the decoders let through (the schema inference itself - Arrow - is cut).
func VerifC04Schema() {
	name := c04Names[zz.Choice("name", len(c04Names))]
	cols := map[string]interface{}{"time": []int64{1}, name: c04Col("c", 1)}
	w := &ArrowWriter{logger: zerolog.Nop()}
	_, _ = w.getSchema("cpu", cols, nil, false, nil)
	zz.Reach("end")
}

// ---- row-format records: column alignment ----

var c04Seen []*models.ColumnarRecord

// c04ObsInternal replaces writeColumnarInternal: records what reaches the buffering layer.
func c04ObsInternal(b *ArrowBuffer, ctx context.Context, database string, record *models.ColumnarRecord, skipWAL bool) error {
	c04Seen = append(c04Seen, record)
	return nil
}

var c04RowNames = []string{"time", "x", "x_value", "v"}

// VerifC04Rows: two row-format records (msgpack row / batch payloads) of one measurement,
// each with an optional tag and one or two fields whose names range over time, x, x_value,
// v, go through ArrowBuffer.Write (dispatch, grouping, rowsToColumnar). The write is either
// refused, or what reaches the buffering layer has every column exactly as long as the
// number of rows - the precondition of the flush, which indexes every column with the
// time column's permutation (a longer time column panics the flush goroutine).
func VerifC04Rows() {
	zz.ClockFixed(1700000000000000000)
	var recs []interface{}
	for i := 0; i < 2; i++ {
		s := string(rune('0' + i))
		r := &models.Record{Measurement: "cpu", Timestamp: int64(1700000000000000 + i), Fields: map[string]interface{}{}}
		if zz.Bool("has_tag_" + s) {
			r.Tags = map[string]string{c04RowNames[zz.Choice("tag_name_"+s, len(c04RowNames))]: "a"}
		}
		r.Fields[c04RowNames[zz.Choice("field_name_"+s, len(c04RowNames))]] = float64(i)
		if zz.Bool("second_field_" + s) {
			r.Fields[c04RowNames[zz.Choice("field2_name_"+s, len(c04RowNames))]] = float64(i + 10)
		}
		recs = append(recs, r)
	}
	c04Seen = nil
	b := &ArrowBuffer{logger: zerolog.Nop()}
	err := b.Write(context.Background(), "db", recs)
	if err != nil {
		zz.Assert(len(c04Seen) == 0, "a refused write handed rows to the buffering layer")
		zz.Reach("refused")
		return
	}
	zz.Assert(len(c04Seen) == 1, "two rows of one measurement did not reach the buffering layer as one record")
	for _, rec := range c04Seen {
		for name, col := range rec.Columns {
			zz.Assert(len(col) == 2, "column "+name+" of an accepted row-format write is not as long as the number of rows")
		}
		tc, ok := rec.Columns["time"]
		zz.Assert(ok && len(tc) == 2, "no time column")
		if ok && len(tc) == 2 {
			t0, ok0 := tc[0].(int64)
			t1, ok1 := tc[1].(int64)
			zz.Assert(ok0 && ok1 && t0 == 1700000000000000 && t1 == 1700000000000001, "the time column does not hold the records' timestamps")
		}
	}
	zz.Reach("accepted")
}

// VerifC04TLE: an arbitrary short TLE body (every byte string of the given length, so every
// placement of line breaks, every short "1 ..." line, blank lines, CRLF) goes through
// ParseTLEFile without a Go panic (bounds and slice checks are engine obligations).
func VerifC04TLE() {
	data := zz.Bytes("body", zz.ParamInt("bytes", 6))
	recs, _ := NewTLEParser().ParseTLEFile(data)
	zz.Assert(len(recs) == 0, "a body far shorter than one 69-column line produced a record")
	zz.Reach("end")
}

// VerifC04LPColumns: the same name pool through the line-protocol conversion
// (BatchToColumnar): every column is as long as the number of rows and the time column holds
// the rows' timestamps - a tag or field that is itself called time must not replace them.
func VerifC04LPColumns() {
	var recs []*models.Record
	for i := 0; i < 2; i++ {
		s := string(rune('0' + i))
		r := &models.Record{Measurement: "cpu", Timestamp: int64(1700000000000000 + i), Fields: map[string]interface{}{}}
		if zz.Bool("has_tag_" + s) {
			r.Tags = map[string]string{c04RowNames[zz.Choice("tag_name_"+s, len(c04RowNames))]: "a"}
		}
		r.Fields[c04RowNames[zz.Choice("field_name_"+s, len(c04RowNames))]] = float64(i)
		recs = append(recs, r)
	}
	out := BatchToColumnar(recs)
	zz.Assert(len(out) == 1, "one measurement expected")
	for _, rec := range out {
		for name, col := range rec.Columns {
			zz.Assert(len(col) == 2, "column "+name+" is not as long as the number of rows")
		}
		tc := rec.Columns["time"]
		if len(tc) == 2 {
			t0, ok0 := tc[0].(int64)
			t1, ok1 := tc[1].(int64)
			zz.Assert(ok0 && ok1 && t0 == 1700000000000000 && t1 == 1700000000000001, "the time column does not hold the rows' timestamps")
		}
	}
	zz.Reach("end")
}
