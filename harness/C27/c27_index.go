//go:build verif

package edgesync

import (
	"context"
	"errors"

	"github.com/basekick-labs/arc/internal/storage"
	zz "github.com/basekick-labs/arc/internal/zzverif"
	"github.com/rs/zerolog"
)

// ---- the hub's receipt table (sync_received), one row, as its SQL statements treat it:
// Record upserts and clears compacted_at; MarkCompacted stamps it (UPDATE only); Lookup
// reports the digest and whether compacted_at is set ----

var c27Receipt struct {
	exists    bool
	sha       string
	compacted bool
}

func c27IdxLookup(h *HubIndex, ctx context.Context, spokeID string, paths []string) (map[string]HeldFile, error) {
	out := map[string]HeldFile{}
	if c27Receipt.exists {
		for _, p := range paths {
			if p == "db/m/f.parquet" {
				out[p] = HeldFile{SHA256: c27Receipt.sha, Compacted: c27Receipt.compacted}
			}
		}
	}
	return out, nil
}
func c27IdxRecord(h *HubIndex, ctx context.Context, r *ReceivedRecord) error {
	if zz.Bool("receipt_write_fails") {
		return errors.New("sqlite busy")
	}
	c27Receipt.exists, c27Receipt.sha, c27Receipt.compacted = true, r.SHA256, false
	return nil
}

// VerifC27Compacted: a spoke file is delivered and receipted; the hub's own compaction then
// consumes it - the receipt is marked compacted and the file deleted, in that order, with
// the window between the two left open. The same bytes are delivered again at any of these
// moments (a lost acknowledgement, a pruned ledger, a stale bundle): before the mark, between
// mark and delete, after the delete. Whatever the order, once the file has been compacted
// away a further delivery of the same content must be answered already-present without
// storing the raw file a second time next to the compacted output that holds its rows.
func VerifC27Compacted() {
	c27V1 = zz.Bytes("file", 3)
	c27V2 = []byte{}
	d1 := c27D1
	root := zz.TempPath("hub")
	be, err := storage.NewLocalBackend(root, zerolog.Nop())
	zz.Assert(err == nil, "backend")
	c27Receipt.exists, c27Receipt.sha, c27Receipt.compacted = false, "", false
	rcv, err := NewReceiver(ReceiverConfig{Backend: be, Logger: zerolog.Nop(), Index: &HubIndex{}})
	zz.Assert(err == nil, "receiver")
	const spoke, src = "s1", "db/m/f.parquet"
	final := root + "/s1/" + src
	deliver := func() *PutResult {
		res, rerr := rcv.Receive(context.Background(), spoke, src, d1, 3, 0, &c27Body{b: append([]byte(nil), c27V1...)})
		if rerr != nil {
			return nil
		}
		return res
	}
	first := deliver()
	if first == nil || first.Outcome != OutcomeCommitted || !c27Receipt.exists {
		zz.Reach("first-delivery-not-receipted")
		return
	}
	// hub-side compaction: mark the receipt, then delete the source file; a redelivery may
	// arrive before the mark, in the window, or not at all
	when := zz.Choice("redelivery", 3) // 0: none, 1: before the mark, 2: between mark and delete
	if when == 1 {
		_ = deliver()
	}
	c27Receipt.compacted = true // MarkCompacted (UPDATE ... SET compacted_at = now)
	if when == 2 {
		_ = deliver()
		zz.Reach("redelivered-in-window")
	}
	if when == 1 && !c27Receipt.compacted {
		return
	}
	zz.Assert(be.Delete(context.Background(), "s1/"+src) == nil, "compaction could not delete its source")
	// the file's rows now live only in the compacted output; the spoke offers the file again
	// (reconcile consults the same receipt: a receipt no longer marked compacted whose file
	// is gone is forgotten and the file reported missing)
	if !c27Receipt.compacted {
		c27Receipt.exists = false // what Reconcile does with a stale, unmarked receipt
	}
	res := deliver()
	_, stored := zz.FSFileBytes(final)
	zz.Assert(!stored, "a spoke file that hub-side compaction had consumed was stored a second time")
	zz.Assert(res != nil && res.Outcome == OutcomeAlreadyPresent, "a redelivery of compacted content was not answered already-present")
	zz.Reach("end")
}
