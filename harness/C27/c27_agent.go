//go:build verif

package edgesync

import (
	"bytes"
	"context"
	"crypto/sha256"
	"encoding/hex"
	"errors"
	"fmt"
	"io"

	"github.com/basekick-labs/arc/internal/storage"
	zz "github.com/basekick-labs/arc/internal/zzverif"
	"github.com/rs/zerolog"
)

// ---- one ledger row, with the guards the SQL statements of ledger.go carry ----
// (UPDATE ... WHERE state IN (...); the model mirrors them, it does not verify them)

var c27Other []byte

var c27Row struct {
	state     SyncState
	attempts  int
	bytesSent int64
	size      int64
	history   []SyncState
}

func c27Move(to SyncState, from ...SyncState) error {
	for _, f := range from {
		if c27Row.state == f {
			c27Row.state = to
			c27Row.history = append(c27Row.history, to)
			return nil
		}
	}
	return fmt.Errorf("%w: state is %q", ErrInvalidTransition, c27Row.state)
}
func c27MarkInFlight(l *Ledger, ctx context.Context, hubID, path string) error {
	if err := c27Move(StateInFlight, StatePending); err != nil {
		return err
	}
	c27Row.attempts++
	return nil
}
func c27RecordProgress(l *Ledger, ctx context.Context, hubID, path string, n int64) error {
	if n < 0 {
		return errors.New("negative progress")
	}
	if c27Row.state != StateInFlight {
		return ErrInvalidTransition
	}
	if n > c27Row.size {
		n = c27Row.size
	}
	c27Row.bytesSent = n
	return nil
}
func c27MarkSynced(l *Ledger, ctx context.Context, hubID, path string) error {
	if err := c27Move(StateSynced, StatePending, StateInFlight, StateExported); err != nil {
		return err
	}
	c27Row.bytesSent = c27Row.size
	return nil
}
func c27MarkFailed(l *Ledger, ctx context.Context, hubID, path, msg string, maxAttempts int) error {
	if maxAttempts <= 0 {
		return errors.New("maxAttempts")
	}
	to := StatePending
	if c27Row.attempts >= maxAttempts {
		to = StateFailed
	}
	return c27Move(to, StateInFlight)
}
func c27MarkConflicted(l *Ledger, ctx context.Context, hubID, path, msg string) error {
	return c27Move(StateFailed, StatePending)
}
func c27MarkSkipped(l *Ledger, ctx context.Context, hubID, path, note string) error {
	return c27Move(StateSkipped, StatePending, StateInFlight)
}

// ---- the link between spoke and hub: the real Receiver behind a faulty transport ----

type c27Transport struct {
	rcv   *Receiver
	round int
}

func (t *c27Transport) Reconcile(ctx context.Context, hubID string, pending []*LedgerEntry) (*ReconcileResult, error) {
	return nil, errors.New("not used")
}

func (t *c27Transport) PutFile(ctx context.Context, hubID string, e *LedgerEntry, body io.Reader, offset int64) (*PutResult, error) {
	s := string(rune('0' + t.round))
	sent, rerr := io.ReadAll(body)
	if rerr != nil {
		return nil, rerr // the source file could not be read (vanished)
	}
	var hubBody io.Reader = bytes.NewReader(sent)
	switch zz.Choice("link_"+s, 5) {
	case 1: // the request never reaches the hub
		return nil, errors.New("connection refused")
	case 2: // the link drops after n bytes
		n := zz.Choice("cut_"+s, len(sent)+1)
		cut := &c27Body{b: sent[:n]}
		if zz.Bool("cut_is_reset_" + s) {
			cut.err = errors.New("connection reset") // otherwise the hub sees a clean, short body
		}
		hubBody = cut
	case 3: // one byte is corrupted on the way
		if len(sent) > 0 {
			c := append([]byte(nil), sent...)
			i := zz.Choice("corrupt_at_"+s, len(c))
			c[i] ^= zz.Byte("corrupt_xor_" + s)
			hubBody = bytes.NewReader(c)
		}
	case 4: // delivered, but the acknowledgement is lost
		_, _ = t.rcv.Receive(ctx, "s1", e.Path, e.SHA256, e.SizeBytes, offset, hubBody)
		return nil, errors.New("timeout waiting for the response")
	}
	return t.rcv.Receive(ctx, "s1", e.Path, e.SHA256, e.SizeBytes, offset, hubBody)
}

// VerifC27Sync: the real Agent.sendOne (claim, open at the resume offset, PutFile, result
// validation, the outcome switch, skipIfVanished, stale-checkpoint handling) against the
// real hub Receiver over a link that per round delivers, refuses, drops after any number
// of bytes, corrupts a byte, or loses the acknowledgement; between rounds the spoke may
// restart (RecoverInFlight) and the source file may vanish. The ledger is one row behind
// the guards its SQL carries.
//   - the row is synced only when the hub's final path holds exactly the spoke's bytes
//   - the hub never exposes other bytes and never stores the file outside its final path
//     and the staging area
//   - the row's state only moves along the documented transitions, and a terminal state
//     is never left
func VerifC27Sync() {
	file := zz.Bytes("spoke_file", 3)
	c27V1, c27V2 = file, []byte{} // c27Hash: D1 exactly for the spoke's bytes
	digest := c27D1
	if !zz.Symbolic() {
		h := sha256.Sum256(file)
		digest = hex.EncodeToString(h[:])
	}
	const src = "db/m/f.parquet"
	spokeBE := zz.NewFakeBackend()
	spokeBE.Files[src] = file
	root := zz.TempPath("hub")
	hubBE, err := storage.NewLocalBackend(root, zerolog.Nop())
	zz.Assert(err == nil, "backend")
	rcv, err := NewReceiver(ReceiverConfig{Backend: hubBE, Logger: zerolog.Nop()})
	zz.Assert(err == nil, "receiver")
	if zz.Bool("hub_holds_other_content") {
		// the hub already holds different bytes at this spoke's path (a spoke-id collision,
		// a restored hub): every transfer of the file is answered with a conflict
		other := zz.Bytes("other_content", 3)
		zz.Assume(!zz.EqBytes(other, file))
		zz.FSWriteFile(root+"/s1/"+src, other)
		c27Other = other
	} else {
		c27Other = nil
	}
	tr := &c27Transport{rcv: rcv}
	a := &Agent{ledger: &Ledger{}, transport: tr, backend: spokeBE, hubID: "hub", spokeID: "s1", logger: zerolog.Nop(), maxAttempts: zz.ParamInt("max_attempts", 2)}
	c27Row.state, c27Row.attempts, c27Row.bytesSent, c27Row.size, c27Row.history = StatePending, 0, 0, int64(len(file)), nil
	final := root + "/s1/" + src
	rounds := zz.ParamInt("rounds", 3)
	for i := 0; i < rounds; i++ {
		tr.round = i
		s := string(rune('0' + i))
		if c27Row.state == StateInFlight {
			// only a restart leaves a row in flight between passes
			c27Row.state = StatePending
		}
		if c27Row.state != StatePending {
			break
		}
		if zz.Bool("source_vanishes_before_" + s) {
			delete(spokeBE.Files, src)
		}
		before := c27Row.state
		e := &LedgerEntry{HubID: "hub", Path: src, SHA256: digest, SizeBytes: c27Row.size, State: c27Row.state, Attempts: c27Row.attempts, BytesSent: c27Row.bytesSent}
		crashed := false
		if zz.Bool("spoke_dies_in_" + s) {
			// the process dies after the claim: the row stays in flight, whatever the hub did
			if c27MarkInFlight(nil, nil, "", "") == nil {
				body, oerr := a.openAt(context.Background(), src, e.BytesSent)
				if oerr == nil {
					_, _ = tr.PutFile(context.Background(), "hub", e, body, e.BytesSent)
				}
			}
			crashed = true
		} else {
			_, _, _, _, _ = a.sendOne(context.Background(), e)
		}
		_ = before
		got, ok := zz.FSFileBytes(final)
		if ok && c27Other != nil {
			zz.Assert(zz.EqBytes(got, c27Other), "a conflicting upload replaced the content the hub held")
		} else if ok {
			zz.Assert(zz.EqBytes(got, file), "the hub exposes a file whose bytes differ from the spoke's")
		}
		if c27Row.state == StateSynced {
			zz.Assert(ok && zz.EqBytes(got, file), "the spoke marked the file synced although the hub does not hold it with identical content")
			zz.Reach("synced")
		}
		if c27Row.state == StateSkipped {
			_, still := spokeBE.Files[src]
			zz.Assert(!still, "a file that still exists on the spoke was skipped")
			zz.Reach("skipped")
		}
		if c27Row.state == StateFailed {
			// a content conflict is terminal at once; anything else only after the attempt cap
			zz.Assert(c27Row.attempts >= a.maxAttempts || c27Other != nil, "the file was given up before its attempts were used")
			zz.Reach("failed")
			if c27Other != nil {
				zz.Reach("conflict-terminal")
			}
		}
		if !crashed {
			zz.Assert(c27Row.state != StateInFlight, "a finished pass left the row in flight")
		}
		zz.Assert(c27Row.bytesSent >= 0 && c27Row.bytesSent <= c27Row.size, "resume checkpoint outside the file")
		if c27Row.state == StatePending && c27Row.bytesSent > 0 {
			zz.Reach("resumable")
		}
		for _, p := range zz.FSList() {
			inStaging := len(p) > len(root)+1+len(StagingPrefix) && p[len(root)+1:len(root)+1+len(StagingPrefix)] == StagingPrefix
			zz.Assert(p == final || p == final+".part" || inStaging, "bytes of the spoke file stored outside its final path and the staging area: "+p)
		}
	}
	zz.Reach("end")
}
