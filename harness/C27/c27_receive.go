//go:build verif

package edgesync

import (
	"context"
	"crypto/sha256"
	"encoding/hex"
	"errors"
	"hash"
	"io"

	"github.com/basekick-labs/arc/internal/storage"
	zz "github.com/basekick-labs/arc/internal/zzverif"
	"github.com/rs/zerolog"
)

// Two versions of the spoke's file at one path: v1 (3 bytes) and v2 (2 bytes, a file
// re-declared at a smaller size). c27Hash stands for SHA-256: the digest of the written
// bytes is D1 exactly for v1's bytes, D2 exactly for v2's bytes and D0 for anything else
// (collision freedom is the assumption).
var c27V1, c27V2 []byte

const (
	c27D0 = "0000000000000000000000000000000000000000000000000000000000000000"
	c27D1 = "1111111111111111111111111111111111111111111111111111111111111111"
	c27D2 = "2222222222222222222222222222222222222222222222222222222222222222"
)

type c27Hash struct{ got []byte }

func (h *c27Hash) Write(p []byte) (int, error) { h.got = append(h.got, p...); return len(p), nil }
func (h *c27Hash) Sum(b []byte) []byte {
	fill := byte(0x00)
	if zz.EqBytes(h.got, c27V1) {
		fill = 0x11
	} else if zz.EqBytes(h.got, c27V2) {
		fill = 0x22
	}
	for i := 0; i < 32; i++ {
		b = append(b, fill)
	}
	return b
}
func (h *c27Hash) Reset()         { h.got = nil }
func (h *c27Hash) Size() int      { return 32 }
func (h *c27Hash) BlockSize() int { return 64 }
func c27NewHash() hash.Hash       { return &c27Hash{} }

// c27Body: the request body as the hub sees it: n bytes, then a clean EOF or a transport
// error (link dropped).
type c27Body struct {
	b   []byte
	pos int
	err error
}

func (r *c27Body) Read(p []byte) (int, error) {
	if r.pos >= len(r.b) {
		if r.err != nil {
			return 0, r.err
		}
		return 0, io.EOF
	}
	n := copy(p, r.b[r.pos:])
	r.pos += n
	return n, nil
}

// VerifC27Receive: a bounded sequence of uploads of one spoke file into the real hub
// Receiver (Receive, resolveExisting, stage, stagedSize, promote, hashStored, the
// short-body guard) writing through the real LocalBackend on the file-system model. Every
// request declares one of the two versions, any resume offset, and carries an arbitrary
// body (any bytes, any length up to one more than declared, ending cleanly or in a
// transport error) - lost acknowledgements (the same upload again), truncated and
// corrupted uploads, stale resume offsets and a re-declared file are all in the space.
//   - the file's final path never holds anything but the complete bytes of a declared
//     version whose digest matched, and once it holds them they never change
//   - committed / already-present is answered only when the final path holds exactly the
//     declared version and it has been registered for readers; conflict only when it holds
//     the other version
//   - nothing of this spoke file is ever stored outside its final path and the staging
//     area (never a second copy)
func VerifC27Receive() {
	c27V1 = zz.Bytes("v1", 3)
	c27V2 = zz.Bytes("v2", 2)
	d1, d2 := c27D1, c27D2
	if !zz.Symbolic() {
		// native replay: the real SHA-256 is in place, so declare the real digests
		h1, h2 := sha256.Sum256(c27V1), sha256.Sum256(c27V2)
		d1, d2 = hex.EncodeToString(h1[:]), hex.EncodeToString(h2[:])
	}
	root := zz.TempPath("hub")
	be, err := storage.NewLocalBackend(root, zerolog.Nop())
	zz.Assert(err == nil, "backend")
	registered := ""
	regCalls := 0
	c27Receipt.exists, c27Receipt.sha, c27Receipt.compacted = false, "", false
	var idx *HubIndex
	if zz.ParamInt("index", 0) == 1 {
		idx = &HubIndex{} // one-row receipt model (run hub-receive-index)
	}
	rcv, err := NewReceiver(ReceiverConfig{Backend: be, Logger: zerolog.Nop(), Index: idx,
		RegisterFile: func(ctx context.Context, f *ReceivedFile) error {
			regCalls++
			if zz.Bool("register_fails_" + string(rune('0'+regCalls))) {
				return errors.New("no quorum")
			}
			registered = f.SHA256
			return nil
		}})
	zz.Assert(err == nil, "receiver")
	const spoke, src = "s1", "db/m/f.parquet"
	final := root + "/s1/db/m/f.parquet"
	var held []byte
	k := zz.ParamInt("uploads", 2)
	for i := 0; i < k; i++ {
		s := string(rune('0' + i))
		want, digest := c27V1, d1
		if zz.Bool("declares_v2_" + s) {
			want, digest = c27V2, d2
		}
		size := int64(len(want))
		off := int64(zz.Choice("offset_"+s, int(size)+1))
		n := zz.Choice("body_len_"+s, int(size)+2)
		body := &c27Body{b: zz.Bytes("body_"+s, 4)[:n]}
		if zz.Bool("link_drops_" + s) {
			body.err = errors.New("connection reset")
		}
		res, rerr := rcv.Receive(context.Background(), spoke, src, digest, size, off, body)

		got, ok := zz.FSFileBytes(final)
		if ok {
			zz.Assert(zz.EqBytes(got, c27V1) || zz.EqBytes(got, c27V2), "the hub exposes a file whose bytes are not the spoke's")
			if held != nil {
				zz.Assert(zz.EqBytes(got, held), "a stored file was overwritten by a later upload")
			}
			held = got
		} else {
			zz.Assert(held == nil, "a stored file disappeared")
		}
		if rerr == nil && res != nil {
			switch res.Outcome {
			case OutcomeCommitted, OutcomeAlreadyPresent:
				zz.Assert(ok && zz.EqBytes(got, want), "the hub acknowledged a file it does not hold with identical content")
				zz.Assert(registered == digest, "the hub acknowledged a file that was never registered for readers")
				zz.Assert(res.BytesAccepted == size, "acknowledged size differs from the file size")
				zz.Reach("acknowledged")
			case OutcomeConflict:
				zz.Assert(ok && !zz.EqBytes(got, want), "conflict reported although the hub does not hold different content")
				zz.Reach("conflict")
			case OutcomePartial:
				zz.Assert(res.BytesAccepted >= 0 && res.BytesAccepted < size, "partial result outside [0, size)")
				zz.Reach("partial")
			case OutcomeChecksumMismatch:
				zz.Reach("mismatch")
			}
		}
		// a receipt makes reconcile answer "present", after which the spoke stops sending the
		// file: it may exist only for content that was registered for readers
		if c27Receipt.exists {
			zz.Assert(registered == c27Receipt.sha, "the hub holds a receipt for content it never registered for readers (reconcile would report it present and the spoke would mark it synced)")
		}
		for _, p := range zz.FSList() {
			inStaging := len(p) > len(root)+1+len(StagingPrefix) && p[len(root)+1:len(root)+1+len(StagingPrefix)] == StagingPrefix
			zz.Assert(p == final || p == final+".part" || inStaging, "bytes of the spoke file stored outside its final path and the staging area: "+p)
		}
	}
	zz.Reach("end")
}
