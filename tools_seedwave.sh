#!/bin/bash
# usage: tools_seedwave.sh <outdir> <worktree prefix> <id>...
# copies each sub-agent deliverable to seeded/<id>-<next n>, removes its worktree and runs
# the property's quick check against it; prints the number of VIOLATION lines.
cd "$(dirname "$0")"
out="$1"; wt="$2"; shift 2
for id in "$@"; do
  n=1; while [ -d seeded/$id-$n ]; do n=$((n+1)); done
  mkdir -p seeded/$id-$n; cp "$out/$id"/* seeded/$id-$n/ 2>/dev/null
  git -C /repo worktree remove --force "$wt$id" 2>/dev/null
  if ! git -C /repo apply --check "$(realpath seeded/$id-$n/patch.diff)" 2>/dev/null; then echo "$id-$n NOAPPLY"; continue; fi
  v=$(./tools_seedtest.sh seeded/$id-$n $id 2>&1 | grep -c "^VIOLATION")
  echo "$id-$n violations=$v"
done
git -C /repo worktree prune
