#!/bin/bash
# usage: tools_seedtest.sh <seed dir> <property id> [gosym args...]
# applies a seeded change to /repo, runs the property's quick check, always reverts.
set -u
seed="$1"; id="$2"; shift 2
cd /verif
git -C /repo apply "$(realpath $seed)/patch.diff" || { echo "APPLY-FAILED"; exit 3; }
trap 'git -C /repo checkout -- . ' EXIT
if [ $# -gt 0 ]; then bin/gosym -config harness/$id/config.json -no-evidence "$@"; else ./check $id quick; fi
echo "EXIT=$?"
