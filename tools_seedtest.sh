#!/bin/bash
# usage: tools_seedtest.sh <seed dir> <property id> [gosym args...]
# applies a seeded change to /repo, runs the property's quick check, always reverts.
# The committed evidence/<id>.json must describe a run on the UNCHANGED tree, so the
# evidence file the mutated run writes is moved to evidence-seeded/ (git-ignored) and
# the previous one is put back.
set -u
seed="$1"; id="$2"; shift 2
cd /verif
git -C /repo apply "$(realpath $seed)/patch.diff" || { echo "APPLY-FAILED"; exit 3; }
keep="$(mktemp -d /tmp/verif-seedtest-XXXXXX)"
[ -f evidence/$id.json ] && cp evidence/$id.json "$keep/$id.json"
restore() {
  git -C /repo checkout -- .
  mkdir -p evidence-seeded
  [ -f evidence/$id.json ] && mv evidence/$id.json "evidence-seeded/$(basename $seed).json"
  [ -f "$keep/$id.json" ] && cp "$keep/$id.json" evidence/$id.json
  rm -rf "$keep"
}
trap restore EXIT
if [ $# -gt 0 ]; then bin/gosym -config harness/$id/config.json -no-evidence "$@"; else ./check $id quick; fi
echo "EXIT=$?"
