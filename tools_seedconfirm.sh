#!/bin/bash
# usage: tools_seedconfirm.sh <seed dir> [extra test packages...]
# Confirms a seeded change independently in a scratch worktree of /repo's HEAD:
#   demo passes without the patch, fails with it, the tree builds, and the existing tests
#   of the touched packages (plus any extra packages given) pass with the patch applied.
# The worktree and its build output are removed afterwards. Writes <seed dir>/confirm.log.
set -u
seed="$(realpath "$1")"; shift
extra="$*"
export GOFLAGS=-mod=mod GOPROXY=off
wt="$(mktemp -d /tmp/wtc-XXXXXX)"; rmdir "$wt"
git -C /repo worktree add --detach "$wt" HEAD >/dev/null 2>&1 || { echo "worktree failed"; exit 3; }
trap 'git -C /repo worktree remove --force "$wt" >/dev/null 2>&1; rm -rf "$wt"' EXIT
demo="$(cat "$seed/demo_path.txt" | tr -d '\n ')"
demofile="$(ls "$seed"/*_test.go | head -1)"
pkg="./$(dirname "$demo")"
{
echo "== seed $(basename "$seed") at /repo $(git -C /repo rev-parse --short HEAD)"
cd "$wt"
cp "$demofile" "$demo"
fn="$(grep -o '^func Test[A-Za-z0-9_]*' "$demofile" | head -1 | sed 's/func //')"
echo "-- demo WITHOUT patch: go test -run ^$fn\$ $pkg"
go test -vet=off -count=1 -run "^$fn\$" "$pkg" 2>&1 | tail -4; r0=${PIPESTATUS[0]}
git apply "$seed/patch.diff" || { echo "PATCH-DOES-NOT-APPLY"; exit 4; }
echo "-- build with patch"; go build ./... 2>&1 | tail -3; rb=${PIPESTATUS[0]}
echo "-- demo WITH patch"
go test -vet=off -count=1 -run "^$fn\$" "$pkg" 2>&1 | tail -6; r1=${PIPESTATUS[0]}
rm -f "$demo"
touched="$(git diff --name-only | xargs -n1 dirname | sort -u | sed 's#^#./#' | tr '\n' ' ')"
echo "-- existing tests with patch: $touched $extra"
go test -vet=off -count=1 $touched $extra 2>&1 | tail -12; rt=${PIPESTATUS[0]}
echo "RESULT demo_without=$r0 build=$rb demo_with=$r1 existing_tests=$rt"
if [ $r0 -eq 0 ] && [ $rb -eq 0 ] && [ $r1 -ne 0 ] && [ $rt -eq 0 ]; then echo CONFIRMED; else echo NOT-CONFIRMED; fi
} 2>&1 | tee "$seed/confirm.log" | tail -25
