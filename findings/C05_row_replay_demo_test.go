package main

import (
	"context"
	"os"
	"path/filepath"
	"strings"
	"testing"
	"time"

	"github.com/basekick-labs/arc/internal/config"
	"github.com/basekick-labs/arc/internal/ingest"
	"github.com/basekick-labs/arc/internal/storage"
	"github.com/basekick-labs/arc/internal/wal"
	"github.com/rs/zerolog"
)

func c05Buffer(t *testing.T, dir string) *ingest.ArrowBuffer {
	cfg := &config.IngestConfig{MaxBufferSize: 1000000, MaxBufferAgeMS: 600000, FlushWorkers: 2, FlushQueueSize: 10, ShardCount: 4, Compression: "snappy"}
	st, err := storage.NewLocalBackend(dir, zerolog.Nop())
	if err != nil {
		t.Fatal(err)
	}
	t.Cleanup(func() { st.Close() })
	return ingest.NewArrowBuffer(cfg, st, zerolog.Nop())
}

func c05Files(root string) []string {
	var out []string
	_ = filepath.Walk(root, func(p string, info os.FileInfo, err error) error {
		if err == nil && !info.IsDir() && strings.HasSuffix(p, ".parquet") {
			rel, _ := filepath.Rel(root, p)
			out = append(out, filepath.ToSlash(filepath.Dir(rel)))
		}
		return nil
	})
	return out
}

// A line-protocol style write (columnar record without raw payload) goes to the WAL as
// row-format records; the process dies; startup recovery replays the WAL.
func TestC05RowFormatReplay(t *testing.T) {
	for _, tc := range []struct {
		name string
		cols map[string][]interface{}
		want string // partition directory the live path writes
	}{
		{"tag named _database", map[string][]interface{}{"time": {int64(1700000000000000)}, "v": {1.5}, "_database": {"other"}}, "prod/cpu/2023/11/14/22"},
		{"timestamp 1970-01-01T01:00:00 in microseconds", map[string][]interface{}{"time": {int64(3600000000)}, "v": {1.5}}, "prod/cpu/1970/01/01/01"},
	} {
		t.Run(tc.name, func(t *testing.T) {
			liveDir, recDir, walDir := t.TempDir(), t.TempDir(), t.TempDir()
			w, err := wal.NewWriter(&wal.WriterConfig{WALDir: walDir, SyncMode: wal.SyncModeAsync, Logger: zerolog.Nop()})
			if err != nil {
				t.Fatal(err)
			}
			live := c05Buffer(t, liveDir)
			live.SetWAL(w)
			if err := live.WriteColumnarDirect(context.Background(), "prod", "cpu", tc.cols); err != nil {
				t.Fatal(err)
			}
			if err := w.Close(); err != nil { // entry reached the file
				t.Fatal(err)
			}
			live.Close() // the live path's own flush: the reference
			rec := c05Buffer(t, recDir)
			_, err = wal.NewRecovery(walDir, zerolog.Nop()).RecoverWithOptions(context.Background(),
				createWALRecoveryCallback(rec, zerolog.Nop()),
				&wal.RecoveryOptions{ColumnarCallback: createColumnarRecoveryCallback(rec, zerolog.Nop())})
			if err != nil {
				t.Fatal(err)
			}
			rec.Close()
			time.Sleep(50 * time.Millisecond)
			liveFiles, recFiles := c05Files(liveDir), c05Files(recDir)
			t.Logf("live path stored under %v, WAL replay stored under %v", liveFiles, recFiles)
			if len(liveFiles) != 1 || liveFiles[0] != tc.want {
				t.Fatalf("unexpected live layout %v", liveFiles)
			}
			if len(recFiles) != 1 || recFiles[0] != tc.want {
				t.Errorf("WAL replay stored the acknowledged row under %v, the live path under %v", recFiles, liveFiles)
			}
		})
	}
}
