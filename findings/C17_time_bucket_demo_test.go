package api

import (
	"fmt"
	"testing"

	"github.com/basekick-labs/arc/internal/database"
	"github.com/rs/zerolog"
)

// The time_bucket rewrite against the real DuckDB: for each case the original expression and
// the rewritten one are evaluated on the same instant. They must name the same bucket.
// (Fails on the current tree: the three listed C17 findings; the facts the C17 model uses -
// the cast rounds, // truncates, time_bucket's origin is Monday 2000-01-03 - are what these
// cases show.)
func TestC17TimeBucketRewriteAgainstDuckDB(t *testing.T) {
	duck, err := database.New(&database.Config{MemoryLimit: "256MB", ThreadCount: 2, MaxConnections: 2, LocalStorageRoot: t.TempDir()}, zerolog.Nop())
	if err != nil {
		t.Fatal(err)
	}
	defer duck.Close()
	cases := []struct{ iv, ts, why string }{
		{"1 hour", "2024-01-01 12:30:00", "plain case: must agree"},
		{"1 day", "2024-01-01 12:03:00", "plain case: must agree"},
		{"1 hour", "2024-01-01 12:59:59.7", "sub-second part above one half: the cast to BIGINT rounds up"},
		{"1 hour", "1969-12-31 23:30:00", "before the epoch: // truncates toward zero"},
		{"1 week", "2024-01-03 10:00:00", "weeks: DuckDB starts them on Monday (origin 2000-01-03)"},
		{"7 minutes", "2024-01-01 12:03:00", "a width that does not divide the distance to DuckDB's origin"},
		{"2 days", "2024-01-02 12:03:00", "a width that does not divide the distance to DuckDB's origin"},
	}
	for _, c := range cases {
		orig := fmt.Sprintf("SELECT epoch_us(time_bucket(INTERVAL '%s', ts)) FROM (SELECT TIMESTAMP '%s' AS ts) t", c.iv, c.ts)
		rew := rewriteTimeBucket(orig)
		if rew == orig {
			t.Fatalf("not rewritten: %s", orig)
		}
		var a, b int64
		if err := duck.DB().QueryRow(orig).Scan(&a); err != nil {
			t.Fatal(err)
		}
		if err := duck.DB().QueryRow(rew).Scan(&b); err != nil {
			t.Fatalf("%s: %v", rew, err)
		}
		if a != b {
			t.Errorf("time_bucket('%s', '%s'): DuckDB %d us, rewritten %d us (%s)", c.iv, c.ts, a, b, c.why)
		}
	}
}
