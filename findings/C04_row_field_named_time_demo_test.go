package ingest

import (
	"context"
	"testing"

	"github.com/basekick-labs/arc/internal/config"
	"github.com/basekick-labs/arc/internal/storage"
	"github.com/basekick-labs/arc/pkg/models"
	"github.com/rs/zerolog"
)

// Row-format records (msgpack row / batch payloads) whose field is called "time", or whose
// field "x_value" sits next to a tag and a field both called "x": the write must either be
// rejected or stored - it must not be acknowledged and then panic the flush.
func TestC04RowColumnNameCollisions(t *testing.T) {
	cases := map[string][]*models.Record{
		"field named time": {
			{Measurement: "cpu", Timestamp: 1700000003000000, Fields: map[string]interface{}{"time": int64(1700000002000000), "v": 1.0}},
			{Measurement: "cpu", Timestamp: 1700000001000000, Fields: map[string]interface{}{"time": int64(1700000000000000), "v": 2.0}},
		},
		"x_value next to tag x and field x": {
			{Measurement: "cpu", Timestamp: 1700000003000000, Tags: map[string]string{"x": "a"}, Fields: map[string]interface{}{"x": 1.0, "x_value": 2.0}},
			{Measurement: "cpu", Timestamp: 1700000001000000, Tags: map[string]string{"x": "b"}, Fields: map[string]interface{}{"x": 3.0, "x_value": 4.0}},
		},
	}
	for name, rows := range cases {
		t.Run(name, func(t *testing.T) {
			st, err := storage.NewLocalBackend(t.TempDir(), zerolog.Nop())
			if err != nil {
				t.Fatal(err)
			}
			defer st.Close()
			buf := NewArrowBuffer(&config.IngestConfig{MaxBufferSize: 1000000, MaxBufferAgeMS: 60000, FlushWorkers: 1, FlushQueueSize: 4, ShardCount: 1, Compression: "snappy"}, st, zerolog.Nop())
			recs := make([]interface{}, len(rows))
			for i, r := range rows {
				recs[i] = r
			}
			werr := buf.Write(context.Background(), "db", recs)
			t.Logf("Write: %v", werr)
			func() {
				defer func() {
					if p := recover(); p != nil {
						t.Fatalf("write acknowledged=%v, then the flush panicked: %v", werr == nil, p)
					}
				}()
				_ = buf.FlushAll(context.Background())
			}()
			_ = buf.Close()
		})
	}
}
