package ingest

import "testing"

// A line-protocol tag or field called time must not replace the row's timestamp.
func TestC04LineProtocolFieldNamedTime(t *testing.T) {
	recs := NewLineProtocolParser().ParseBatchWithPrecision([]byte("cpu,host=a time=5i,v=1 1700000000000000000\ncpu,time=zz v=2 1700000001000000000\n"), "ns")
	if len(recs) != 2 {
		t.Fatalf("parsed %d records", len(recs))
	}
	tc := BatchToColumnar(recs)["cpu"].Columns["time"]
	if len(tc) != 2 || tc[0] != int64(1700000000000000) || tc[1] != int64(1700000001000000) {
		t.Fatalf("time column = %v, want the two row timestamps", tc)
	}
}

// A two-line TLE entry whose first line is shorter than the catalog-number columns must be
// rejected, not panic the import handler.
func TestC04ShortTLELine(t *testing.T) {
	defer func() {
		if p := recover(); p != nil {
			t.Fatalf("panic: %v", p)
		}
	}()
	recs, _ := NewTLEParser().ParseTLEFile([]byte("1 a\nfoo\n"))
	if len(recs) != 0 {
		t.Fatalf("records from garbage: %d", len(recs))
	}
}
