package cluster

import (
	"bytes"
	"context"
	"os"
	"path/filepath"
	"strings"
	"sync"
	"testing"

	"github.com/apache/arrow-go/v18/parquet/file"
	"github.com/basekick-labs/arc/internal/config"
	"github.com/basekick-labs/arc/internal/ingest"
	"github.com/basekick-labs/arc/internal/storage"
	"github.com/basekick-labs/arc/internal/wal"
	"github.com/rs/zerolog"
)

// TestC32ReplicatedRowKeepsRoutingLikeColumns drives the
// real pipeline end to end:
//
//	writer:   line protocol -> BatchToColumnar -> ArrowBuffer (real WAL writer,
//	          replication hook captures the entry exactly as the sender would
//	          stream it)
//	follower: Coordinator.buildReplicationIngestHandler -> follower ArrowBuffer
//	          -> parquet files on local storage
//
// The caller was checked for write permission on db1.cpu only (the handler
// derives the measurement list from BatchToColumnar's keys). The line carries
// a tag that is merely NAMED "m". Every row stored on the follower must be
// under db1/cpu; nothing may appear under another measurement.
func TestC32ReplicatedRowKeepsRoutingLikeColumns(t *testing.T) {
	ctx := context.Background()
	newBuf := func(dir string) *ingest.ArrowBuffer {
		cfg := &config.IngestConfig{
			MaxBufferSize:  1000000,
			MaxBufferAgeMS: 60000,
			FlushWorkers:   2,
			FlushQueueSize: 10,
			ShardCount:     4,
			Compression:    "snappy",
		}
		st, err := storage.NewLocalBackend(dir, zerolog.Nop())
		if err != nil {
			t.Fatalf("storage: %v", err)
		}
		t.Cleanup(func() { st.Close() })
		return ingest.NewArrowBuffer(cfg, st, zerolog.Nop())
	}
	parquetPaths := func(dir string) []string {
		var out []string
		_ = filepath.Walk(dir, func(p string, info os.FileInfo, err error) error {
			if err == nil && !info.IsDir() && strings.HasSuffix(p, ".parquet") {
				rel, _ := filepath.Rel(dir, p)
				out = append(out, filepath.ToSlash(rel))
			}
			return nil
		})
		return out
	}

	// ---- writer node -------------------------------------------------------
	writerDir := t.TempDir()
	writerBuf := newBuf(writerDir)

	walWriter, err := wal.NewWriter(&wal.WriterConfig{WALDir: t.TempDir(), Logger: zerolog.Nop()})
	if err != nil {
		t.Fatalf("wal writer: %v", err)
	}
	var (
		mu       sync.Mutex
		streamed [][]byte
	)
	walWriter.SetReplicationHook(func(e *wal.ReplicationEntry) {
		mu.Lock()
		streamed = append(streamed, append([]byte(nil), e.Payload...))
		mu.Unlock()
	})
	writerBuf.SetWAL(walWriter)

	body := []byte("cpu,host=a,m=x value=1 1700000000000000000\n" +
		"cpu,host=b,m=x value=2 1700000001000000000\n")
	records := ingest.NewLineProtocolParser().ParseBatchWithPrecision(body, "ns")
	if len(records) != 2 {
		t.Fatalf("parsed %d records, want 2", len(records))
	}
	byMeasurement := ingest.BatchToColumnar(records)
	// This is the list the write handlers hand to CheckWritePermissions.
	if len(byMeasurement) != 1 || byMeasurement["cpu"] == nil {
		t.Fatalf("permission-checked measurements = %v, want only cpu", byMeasurement)
	}
	for _, rec := range byMeasurement {
		if err := writerBuf.WriteColumnarRecord(ctx, "db1", rec); err != nil {
			t.Fatalf("writer write: %v", err)
		}
	}
	if err := writerBuf.Close(); err != nil {
		t.Fatalf("writer close: %v", err)
	}
	_ = walWriter.Close()
	for _, p := range parquetPaths(writerDir) {
		if !strings.HasPrefix(p, "db1/cpu/") {
			t.Fatalf("writer stored a row outside db1/cpu: %s", p)
		}
	}

	mu.Lock()
	entries := streamed
	mu.Unlock()
	if len(entries) == 0 {
		t.Fatal("replication hook saw no WAL entry")
	}

	// ---- follower node -----------------------------------------------------
	followerDir := t.TempDir()
	followerBuf := newBuf(followerDir)
	coord := &Coordinator{logger: zerolog.Nop()}
	coord.SetIngestBuffer(followerBuf)
	handler := coord.buildReplicationIngestHandler()
	for _, payload := range entries {
		if err := handler.ApplyReplicatedEntry(ctx, payload); err != nil {
			t.Fatalf("apply replicated entry: %v", err)
		}
	}
	if err := followerBuf.Close(); err != nil {
		t.Fatalf("follower close: %v", err)
	}

	schemaOf := func(dir string) map[string]bool {
		cols := map[string]bool{}
		for _, p := range parquetPaths(dir) {
			data, err := os.ReadFile(filepath.Join(dir, p))
			if err != nil {
				t.Fatal(err)
			}
			rdr, err := file.NewParquetReader(bytes.NewReader(data))
			if err != nil {
				t.Fatal(err)
			}
			sc := rdr.MetaData().Schema
			for i := 0; i < sc.NumColumns(); i++ {
				cols[sc.Column(i).Name()] = true
			}
			rdr.Close()
		}
		return cols
	}
	wc, fc := schemaOf(writerDir), schemaOf(followerDir)
	for c := range wc {
		if !fc[c] {
			t.Errorf("column %q stored on the writer is missing on the follower (writer %v, follower %v)", c, wc, fc)
		}
	}
	paths := parquetPaths(followerDir)
	if len(paths) == 0 {
		t.Fatal("follower stored nothing")
	}
	for _, p := range paths {
		if !strings.HasPrefix(p, "db1/cpu/") {
			t.Errorf("replicated row landed outside the permission-checked target db1/cpu: %s", p)
		}
	}
}
