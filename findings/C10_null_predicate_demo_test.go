package api

import (
	"bytes"
	"encoding/json"
	"fmt"
	"net/http/httptest"
	"os"
	"path/filepath"
	"testing"

	"github.com/basekick-labs/arc/internal/config"
	"github.com/basekick-labs/arc/internal/database"
	"github.com/basekick-labs/arc/internal/storage"
	"github.com/gofiber/fiber/v2"
	"github.com/rs/zerolog"
)

// A row-level delete removes exactly the rows for which the predicate is TRUE. Rows for
// which it is NULL (a NULL in the compared column) must stay, and the dry run must report
// the number of rows the real delete then removes.
func TestC10DeleteKeepsRowsWherePredicateIsNull(t *testing.T) {
	tmp := t.TempDir()
	logger := zerolog.Nop()
	backend, err := storage.NewLocalBackend(tmp, logger)
	if err != nil {
		t.Fatal(err)
	}
	duck, err := database.New(&database.Config{MemoryLimit: "256MB", ThreadCount: 2, MaxConnections: 2, LocalStorageRoot: tmp}, logger)
	if err != nil {
		t.Fatal(err)
	}
	defer duck.Close()
	dir := filepath.Join(tmp, "db", "cpu", "2024", "01", "01", "00")
	if err := os.MkdirAll(dir, 0o755); err != nil {
		t.Fatal(err)
	}
	file := filepath.Join(dir, "f.parquet")
	// five rows: v = 1, 9, NULL, NULL, 3
	if _, err := duck.DB().Exec(fmt.Sprintf(`COPY (SELECT * FROM (VALUES (1, 1), (2, 9), (3, NULL), (4, NULL), (5, 3)) t(id, v)) TO '%s' (FORMAT PARQUET)`, file)); err != nil {
		t.Fatal(err)
	}
	h := NewDeleteHandler(duck, backend, &config.DeleteConfig{Enabled: true, ConfirmationThreshold: 1000, MaxRowsPerDelete: 1000}, nil, tmp, logger)
	app := fiber.New()
	h.RegisterRoutes(app)
	do := func(dry bool) DeleteResponse {
		body, _ := json.Marshal(DeleteRequest{Database: "db", Measurement: "cpu", Where: "v > 5", DryRun: dry, Confirm: true})
		req := httptest.NewRequest("POST", "/api/v1/delete", bytes.NewReader(body))
		req.Header.Set("Content-Type", "application/json")
		resp, err := app.Test(req, -1)
		if err != nil {
			t.Fatal(err)
		}
		var out DeleteResponse
		_ = json.NewDecoder(resp.Body).Decode(&out)
		return out
	}
	dry := do(true)
	real := do(false)
	var left, nulls int64
	if err := duck.DB().QueryRow(fmt.Sprintf(`SELECT COUNT(*), COUNT(*) FILTER (WHERE v IS NULL) FROM read_parquet('%s')`, file)).Scan(&left, &nulls); err != nil {
		t.Fatal(err)
	}
	t.Logf("dry run reported %d, delete reported %d, rows left %d (NULL rows left %d)", dry.DeletedCount, real.DeletedCount, left, nulls)
	if dry.DeletedCount != 1 {
		t.Errorf("dry run reported %d rows, the predicate selects 1", dry.DeletedCount)
	}
	if left != 4 || nulls != 2 {
		t.Errorf("after DELETE WHERE v > 5: %d rows left (%d with v NULL); want 4 rows, both NULL rows untouched", left, nulls)
	}
	if real.DeletedCount != dry.DeletedCount {
		t.Errorf("the delete reported %d rows, its dry run %d", real.DeletedCount, dry.DeletedCount)
	}
}
