package api

import (
	"bytes"
	"net/http/httptest"
	"os"
	"path/filepath"
	"strings"
	"sync"
	"testing"
	"time"

	"github.com/Basekick-Labs/msgpack/v6"
	"github.com/basekick-labs/arc/internal/auth"
	"github.com/basekick-labs/arc/internal/config"
	"github.com/basekick-labs/arc/internal/ingest"
	"github.com/basekick-labs/arc/internal/storage"
	"github.com/gofiber/fiber/v2"
	"github.com/rs/zerolog"
)

type c32RBAC struct {
	mu      sync.Mutex
	checked []string
}

func (r *c32RBAC) IsRBACEnabled() bool { return true }
func (r *c32RBAC) CheckPermission(req *auth.PermissionCheckRequest) *auth.PermissionCheckResult {
	r.mu.Lock()
	r.checked = append(r.checked, req.Database+"/"+req.Measurement)
	r.mu.Unlock()
	if req.Database == "tenant" && req.Measurement == "allowed" {
		return &auth.PermissionCheckResult{Allowed: true, Source: "rbac"}
	}
	return &auth.PermissionCheckResult{Allowed: false, Source: "denied"}
}
func (r *c32RBAC) CheckPermissionsBatch(reqs []*auth.PermissionCheckRequest) []*auth.PermissionCheckResult {
	out := make([]*auth.PermissionCheckResult, len(reqs))
	for i, q := range reqs {
		out[i] = r.CheckPermission(q)
	}
	return out
}

// A caller allowed to write only tenant/allowed sends a columnar payload whose
// measurement is the empty string.
func TestC32EmptyMeasurement(t *testing.T) {
	dir := t.TempDir()
	cfg := &config.IngestConfig{MaxBufferSize: 1000000, MaxBufferAgeMS: 600000, FlushWorkers: 2, FlushQueueSize: 10, ShardCount: 4, Compression: "snappy"}
	st, err := storage.NewLocalBackend(dir, zerolog.Nop())
	if err != nil {
		t.Fatal(err)
	}
	defer st.Close()
	buf := ingest.NewArrowBuffer(cfg, st, zerolog.Nop())
	rbac := &c32RBAC{}
	h := NewMsgPackHandler(zerolog.Nop(), buf, 10<<20)
	h.SetAuthAndRBAC(nil, rbac)
	app := fiber.New()
	app.Use(func(c *fiber.Ctx) error {
		c.Locals("token_info", &auth.TokenInfo{ID: 7, Name: "w", Enabled: true})
		return c.Next()
	})
	h.RegisterRoutes(app)
	body, err := msgpack.Marshal(map[string]interface{}{"m": "", "columns": map[string]interface{}{
		"time": []interface{}{int64(1700000000000000)}, "v": []interface{}{1.5}}})
	if err != nil {
		t.Fatal(err)
	}
	req := httptest.NewRequest("POST", "/api/v1/write/msgpack", bytes.NewReader(body))
	req.Header.Set("x-arc-database", "tenant")
	req.Header.Set("Content-Type", "application/msgpack")
	resp, err := app.Test(req, -1)
	if err != nil {
		t.Fatal(err)
	}
	buf.Close()
	time.Sleep(50 * time.Millisecond)
	var stored []string
	_ = filepath.Walk(dir, func(p string, info os.FileInfo, err error) error {
		if err == nil && !info.IsDir() && strings.HasSuffix(p, ".parquet") {
			rel, _ := filepath.Rel(dir, p)
			stored = append(stored, filepath.ToSlash(rel))
		}
		return nil
	})
	t.Logf("status %d, permission-checked %v, stored %v", resp.StatusCode, rbac.checked, stored)
	if resp.StatusCode == fiber.StatusNoContent || len(stored) > 0 {
		t.Errorf("a write under the empty measurement name was accepted (status %d) without any name validation or permission check (checked: %v) and stored %v", resp.StatusCode, rbac.checked, stored)
	}
}
