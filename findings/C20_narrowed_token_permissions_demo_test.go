package auth

import (
	"context"
	"path/filepath"
	"reflect"
	"testing"
	"time"
	"unsafe"

	"github.com/rs/zerolog"

	"github.com/basekick-labs/arc/internal/license"
)

// c20LicenseClient builds a license.Client whose current license is
// active and carries the RBAC feature, so RBACManager.IsRBACEnabled() is true
// and the cached permission path is exercised.
func c20LicenseClient(t *testing.T) *license.Client {
	t.Helper()
	c := &license.Client{}
	lic := &license.License{
		Tier:     license.TierEnterprise,
		Status:   "active",
		Features: []string{license.FeatureRBAC},
	}
	f := reflect.ValueOf(c).Elem().FieldByName("license")
	if !f.IsValid() {
		t.Fatalf("license.Client has no 'license' field")
	}
	reflect.NewAt(f.Type(), unsafe.Pointer(f.UnsafeAddr())).Elem().Set(reflect.ValueOf(lic))
	if got := c.GetLicense(); got == nil || !got.HasFeature(license.FeatureRBAC) {
		t.Fatalf("could not install test license")
	}
	return c
}

// TestSeedDemo_C20 : permission decisions must reflect the current RBAC state
// right after an organization change has returned.
//
// History (cluster-apply mode, upgrade from a pre-cluster-RBAC build):
//  1. local SQLite holds org "acme" at an old AUTOINCREMENT id with a team, a
//     role granting write on "prod" and a token membership;
//  2. the token's write permission on "prod" is checked (allowed via RBAC,
//     both caches are now warm);
//  3. the upgrade seed's CreateOrganization for "acme" is applied with the
//     FSM-stamped id: the local row is re-aligned (DELETE + INSERT), which
//     cascade-deletes the team, role and membership;
//  4. the very next check must be what a cache-free evaluator says on the
//     stored state: denied (the token itself only has "read").
func TestC20NarrowedTokenPermissions(t *testing.T) {
	ctx := context.Background()
	logger := zerolog.Nop()
	am, err := NewAuthManager(filepath.Join(t.TempDir(), "auth.db"), 5*time.Minute, 100, logger)
	if err != nil {
		t.Fatal(err)
	}
	defer am.Close()
	lc := c20LicenseClient(t)
	rm := NewRBACManager(&RBACManagerConfig{DB: am.GetDB(), LicenseClient: lc, Logger: logger})
	defer rm.Close()
	tok, err := am.CreateToken(ctx, "svc", "service token", "read,write", nil)
	if err != nil {
		t.Fatal(err)
	}
	info := am.VerifyToken(tok)
	req := func(ti *TokenInfo) *PermissionCheckRequest {
		return &PermissionCheckRequest{TokenInfo: ti, Database: "prod", Permission: "write"}
	}
	if r := rm.CheckPermission(req(info)); !r.Allowed {
		t.Fatalf("before: %+v", r)
	}
	perms := "read"
	if err := am.UpdateToken(ctx, info.ID, nil, nil, &perms, nil); err != nil {
		t.Fatal(err)
	}
	info2 := am.VerifyToken(tok)
	t.Logf("token permissions after update: %v", info2.Permissions)
	ref := NewRBACManager(&RBACManagerConfig{DB: am.GetDB(), LicenseClient: lc, Logger: logger})
	defer ref.Close()
	want := ref.CheckPermission(req(info2))
	got := rm.CheckPermission(req(info2))
	t.Logf("after narrowing to read: policy on current state says allowed=%v, manager answers allowed=%v (source %q)", want.Allowed, got.Allowed, got.Source)
	if got.Allowed != want.Allowed {
		t.Errorf("write check after narrowing the token to read returned allowed=%v, current state gives %v", got.Allowed, want.Allowed)
	}
	batch := rm.CheckPermissionsBatch([]*PermissionCheckRequest{req(info2)})
	if batch[0].Allowed != want.Allowed {
		t.Errorf("batch check after narrowing returned allowed=%v, current state gives %v", batch[0].Allowed, want.Allowed)
	}
}
