package ingest

import (
	"testing"

	"github.com/rs/zerolog"
)

// A columnar payload whose columns map holds an ext-typed (non-array) value: the generic
// decoder refuses the whole payload (unknown ext id); the typed fast path must not accept
// it by skipping the value.
func TestC02ExtColumnValue(t *testing.T) {
	b := []byte{0x82, 0xa1, 'm', 0xa3, 'c', 'p', 'u', 0xa7, 'c', 'o', 'l', 'u', 'm', 'n', 's', 0x82, 0xa4, 't', 'i', 'm', 'e', 0x91, 0x00,
		0xa0, 0xd4, 0xa1, 'v', // key "", value fixext1(type -95, data 'v')
		0x91, 0x07}
	var errs [2]error
	for i, on := range []bool{true, false} {
		d := NewMessagePackDecoder(zerolog.Nop())
		d.SetTypedDecodeEnabled(on)
		_, errs[i] = d.Decode(append([]byte(nil), b...))
	}
	if (errs[0] == nil) != (errs[1] == nil) {
		t.Fatalf("typed fast path on: err=%v; off: err=%v - the same body is accepted by one path and refused by the other", errs[0], errs[1])
	}
}
