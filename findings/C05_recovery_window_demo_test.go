package main

import (
	"context"
	"os"
	"path/filepath"
	"strings"
	"testing"

	"github.com/basekick-labs/arc/internal/config"
	"github.com/basekick-labs/arc/internal/ingest"
	"github.com/basekick-labs/arc/internal/storage"
	"github.com/basekick-labs/arc/internal/wal"
	"github.com/rs/zerolog"
)

// After a crash the WAL holds an acknowledged row. Startup recovery replays it. If the
// process dies again right after recovery (before the buffer's next flush), the row must
// still be recoverable from somewhere.
func TestC05RowsDurableRightAfterRecovery(t *testing.T) {
	walDir, dataDir := t.TempDir(), t.TempDir()
	w, err := wal.NewWriter(&wal.WriterConfig{WALDir: walDir, SyncMode: wal.SyncModeAsync, Logger: zerolog.Nop()})
	if err != nil {
		t.Fatal(err)
	}
	if err := w.Append([]map[string]interface{}{{"_database": "prod", "_measurement": "cpu", "time": int64(1700000000000000), "v": 1.5}}); err != nil {
		t.Fatal(err)
	}
	w.Close() // entry reached the file; first crash
	st, _ := storage.NewLocalBackend(dataDir, zerolog.Nop())
	defer st.Close()
	cfg := &config.IngestConfig{MaxBufferSize: 1000000, MaxBufferAgeMS: 600000, FlushWorkers: 1, FlushQueueSize: 10, ShardCount: 1, Compression: "snappy"}
	buf := ingest.NewArrowBuffer(cfg, st, zerolog.Nop())
	stats, err := wal.NewRecovery(walDir, zerolog.Nop()).RecoverWithOptions(context.Background(),
		createWALRecoveryCallback(buf, zerolog.Nop()), &wal.RecoveryOptions{ColumnarCallback: createColumnarRecoveryCallback(buf, zerolog.Nop())})
	if err != nil || stats.RecoveredEntries != 1 {
		t.Fatalf("recovery: %v %+v", err, stats)
	}
	// second crash here: memory is gone. What is left on disk?
	walFiles, _ := filepath.Glob(filepath.Join(walDir, "*.wal"))
	parquet := 0
	_ = filepath.Walk(dataDir, func(p string, info os.FileInfo, err error) error {
		if err == nil && !info.IsDir() && strings.HasSuffix(p, ".parquet") {
			parquet++
		}
		return nil
	})
	t.Logf("right after recovery: %d WAL files, %d parquet files on disk", len(walFiles), parquet)
	if len(walFiles) == 0 && parquet == 0 {
		t.Errorf("the recovered row exists only in memory: a crash right after recovery loses an acknowledged row that had survived the first crash")
	}
	buf.Close()
}
