package replication

import (
	"sync"
	"testing"

	"github.com/rs/zerolog"
)

// Concurrent ingest goroutines hand WAL entries to Sender.Replicate (the WAL replication
// hook runs on each of them). The readers insist on strictly increasing sequence numbers.
func TestC24ConcurrentReplicateKeepsSequenceOrder(t *testing.T) {
	const writers, per = 8, 2000
	for round := 0; round < 20; round++ {
		s := &Sender{cfg: &SenderConfig{BufferSize: writers * per}, logger: zerolog.Nop(), entryChan: make(chan *ReplicateEntry, writers*per)}
		s.running.Store(true)
		var wg sync.WaitGroup
		for w := 0; w < writers; w++ {
			wg.Add(1)
			go func() {
				defer wg.Done()
				for i := 0; i < per; i++ {
					s.Replicate(&ReplicateEntry{Payload: []byte{1}})
				}
			}()
		}
		wg.Wait()
		last := uint64(0)
		for len(s.entryChan) > 0 {
			e := <-s.entryChan
			if e.Sequence <= last {
				t.Fatalf("round %d: entry with sequence %d queued after sequence %d: a healthy stream would be dropped by the receiver's monotonic-sequence check", round, e.Sequence, last)
			}
			last = e.Sequence
		}
	}
}
