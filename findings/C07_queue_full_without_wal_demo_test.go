package ingest

import (
	"context"
	"io"
	"os"
	"path/filepath"
	"strings"
	"testing"
	"time"

	"github.com/basekick-labs/arc/internal/config"
	"github.com/basekick-labs/arc/internal/storage"
	"github.com/rs/zerolog"
)

// gatedBackend: storage whose writes block until the gate opens (a slow / stalled store).
type gatedBackend struct {
	storage.Backend
	gate chan struct{}
}

func (g *gatedBackend) Write(ctx context.Context, p string, d []byte) error {
	<-g.gate
	return g.Backend.Write(ctx, p, d)
}
func (g *gatedBackend) WriteReader(ctx context.Context, p string, r io.Reader, n int64) error {
	<-g.gate
	return g.Backend.WriteReader(ctx, p, r, n)
}

// WAL disabled, one flush worker, flush queue of one: while storage stalls, three writes
// each fill the buffer. All three are acknowledged (nil error).
func TestC07QueueFullWithoutWAL(t *testing.T) {
	dir := t.TempDir()
	lb, err := storage.NewLocalBackend(dir, zerolog.Nop())
	if err != nil {
		t.Fatal(err)
	}
	defer lb.Close()
	gb := &gatedBackend{Backend: lb, gate: make(chan struct{})}
	cfg := &config.IngestConfig{MaxBufferSize: 1, MaxBufferAgeMS: 600000, FlushWorkers: 1, FlushQueueSize: 1, ShardCount: 1, Compression: "snappy"}
	b := NewArrowBuffer(cfg, gb, zerolog.Nop()) // no SetWAL: the WAL is disabled
	acked := 0
	for i := 0; i < 4; i++ {
		cols := map[string][]interface{}{"time": {int64(1700000000000000 + int64(i))}, "v": {float64(i)}}
		if err := b.WriteColumnarDirect(context.Background(), "db", "cpu", cols); err != nil {
			t.Logf("write %d rejected: %v", i, err)
			continue
		}
		acked++
		time.Sleep(50 * time.Millisecond) // let the worker pick up the first task
	}
	close(gb.gate) // storage works again
	b.Close()
	time.Sleep(100 * time.Millisecond)
	files := 0
	_ = filepath.Walk(dir, func(p string, info os.FileInfo, err error) error {
		if err == nil && !info.IsDir() && strings.HasSuffix(p, ".parquet") {
			files++
		}
		return nil
	})
	t.Logf("acknowledged writes: %d, files stored after storage recovered and the buffer was closed: %d", acked, files)
	if files < acked {
		t.Errorf("%d writes were acknowledged but only %d were stored: with the WAL disabled a write whose rows cannot be buffered or flushed must not be acknowledged", acked, files)
	}
}
