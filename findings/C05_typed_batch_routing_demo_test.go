package ingest

import "testing"

// A pre-typed batch (CSV/Parquet import, TLE) that has a column called _database or
// _measurement: the row-format WAL records must still carry the database and measurement
// the request was accepted for, otherwise WAL replay and replication route the rows
// elsewhere.
func TestC05TypedBatchRoutingKeys(t *testing.T) {
	batch := &TypedColumnBatch{Data: map[string]interface{}{
		"time":         []int64{1700000000000000},
		"_database":    []string{"other"},
		"_measurement": []string{"secrets"},
	}}
	rows := typedBatchToWALRecords("prod", "cpu", batch, 1, nil)
	if len(rows) != 1 {
		t.Fatalf("rows = %d", len(rows))
	}
	if rows[0]["_database"] != "prod" || rows[0]["_measurement"] != "cpu" {
		t.Fatalf("WAL record routes to %v/%v, the write was accepted for prod/cpu", rows[0]["_database"], rows[0]["_measurement"])
	}
}
