package tiering

import (
	"bytes"
	"context"
	"database/sql"
	"errors"
	"io"
	"path/filepath"
	"testing"
	"time"

	"github.com/basekick-labs/arc/internal/config"
	"github.com/basekick-labs/arc/internal/storage"
	_ "github.com/mattn/go-sqlite3"
	"github.com/rs/zerolog"
)

type c12FailDeleteOnce struct {
	storage.Backend
	failed bool
}

func (b *c12FailDeleteOnce) Delete(ctx context.Context, path string) error {
	if !b.failed {
		b.failed = true
		return errors.New("hot tier: delete failed (transient)")
	}
	return b.Backend.Delete(ctx, path)
}
func (b *c12FailDeleteOnce) ReadTo(ctx context.Context, path string, w io.Writer) error {
	return b.Backend.(StreamingBackend).ReadTo(ctx, path, w)
}
func (b *c12FailDeleteOnce) WriteReader(ctx context.Context, path string, r io.Reader, size int64) error {
	return b.Backend.(StreamingBackend).WriteReader(ctx, path, r, size)
}

// c12AfterWrite runs a hook once the n-th streamed write to the cold tier has finished
// (used to make the metadata store unavailable between the copy and UpdateTier).
type c12AfterWrite struct {
	storage.Backend
	writes int
	hook   func(n int)
}

func (b *c12AfterWrite) ReadTo(ctx context.Context, path string, w io.Writer) error {
	return b.Backend.(StreamingBackend).ReadTo(ctx, path, w)
}
func (b *c12AfterWrite) WriteReader(ctx context.Context, path string, r io.Reader, size int64) error {
	err := b.Backend.(StreamingBackend).WriteReader(ctx, path, r, size)
	b.writes++
	b.hook(b.writes)
	return err
}

// A migration whose source delete failed (tolerated: "file is in destination") leaves the
// file in both tiers with the metadata on cold. If the same candidate is migrated again
// from a stale list (cron cycle and manual trigger are not serialised) and the metadata
// update of that second attempt fails, its rollback deletes the cold copy the metadata
// names; reconciliation then sees "metadata cold, hot copy exists", calls the hot copy an
// orphan and deletes it too. The file must stay readable from at least one tier.
func TestC12StaleCandidateRollbackThenReconcile(t *testing.T) { c12StaleScenario(t) }

// Reconciliation alone: metadata says cold, the cold copy is gone, the hot copy is the only
// one - it must not be deleted as an orphan.
func TestC12ReconcileKeepsOnlyCopy(t *testing.T) { c12StaleScenario(t) }

func c12StaleScenario(t *testing.T) {
	ctx := context.Background()
	logger := zerolog.Nop()
	tmp := t.TempDir()
	hotLocal, err := storage.NewLocalBackend(filepath.Join(tmp, "hot"), logger)
	if err != nil {
		t.Fatal(err)
	}
	coldLocal, err := storage.NewLocalBackend(filepath.Join(tmp, "cold"), logger)
	if err != nil {
		t.Fatal(err)
	}
	db, err := sql.Open("sqlite3", filepath.Join(tmp, "tiering.db"))
	if err != nil {
		t.Fatal(err)
	}
	defer db.Close()
	cfg := &config.TieredStorageConfig{Enabled: true, MigrationSchedule: "0 2 * * *", MigrationMaxConcurrent: 1, MigrationBatchSize: 10,
		DefaultHotMaxAgeDays: 7, Cold: config.ColdTierConfig{Enabled: true, Backend: "local"}}
	metadata, err := NewMetadataStore(db, logger)
	if err != nil {
		t.Fatal(err)
	}
	policies, err := NewPolicyStore(db, cfg, logger)
	if err != nil {
		t.Fatal(err)
	}
	hot := &c12FailDeleteOnce{Backend: hotLocal}
	cold := &c12AfterWrite{Backend: coldLocal}
	renamed := false
	cold.hook = func(n int) {
		if n == 2 {
			renamed = true
			// the metadata database is unavailable for the second attempt's UpdateTier
			if _, err := db.Exec(`ALTER TABLE tier_files RENAME TO tier_files_away`); err != nil {
				t.Fatalf("rename: %v", err)
			}
		}
	}
	m := &Manager{hotBackend: hot, coldBackend: cold, metadata: metadata, policies: policies, config: cfg, logger: logger, stopCh: make(chan struct{})}
	m.migrator = NewMigrator(&MigratorConfig{Manager: m, MaxConcurrent: 1, BatchSize: 10, Logger: logger})

	const path = "testdb/cpu/2025/01/01/00/cpu_20250101_daily.parquet"
	want := bytes.Repeat([]byte{'x'}, 4096)
	if err := hotLocal.Write(ctx, path, want); err != nil {
		t.Fatal(err)
	}
	if err := m.RecordNewFile(ctx, &FileMetadata{Path: path, Database: "testdb", Measurement: "cpu",
		PartitionTime: time.Now().UTC().AddDate(0, 0, -30), SizeBytes: int64(len(want))}); err != nil {
		t.Fatal(err)
	}
	// both cycles list the file while it is hot
	cycleA, _ := m.migrator.FindCandidates(ctx, TierHot, TierCold)
	cycleB, _ := m.migrator.FindCandidates(ctx, TierHot, TierCold)
	if len(cycleA) != 1 || len(cycleB) != 1 {
		t.Fatalf("candidates: %d %d", len(cycleA), len(cycleB))
	}
	// cycle A: complete except for the (tolerated) source delete failure
	if err := m.migrator.MigrateFile(ctx, cycleA[0]); err != nil {
		t.Fatalf("first migration: %v", err)
	}
	// cycle B: stale candidate, metadata update fails -> rollback
	err = m.migrator.MigrateFile(ctx, cycleB[0])
	t.Logf("second migration of the stale candidate: %v", err)
	if renamed {
		if _, err := db.Exec(`ALTER TABLE tier_files_away RENAME TO tier_files`); err != nil {
			t.Fatal(err)
		}
	}
	if t.Name() == "TestC12ReconcileKeepsOnlyCopy" {
		// the cold copy the metadata names is lost by other means
		if err := coldLocal.Delete(ctx, path); err != nil {
			t.Fatal(err)
		}
	}
	m.migrator.ReconcileOrphanedFiles(ctx)

	meta, _ := metadata.GetFile(ctx, path)
	hotData, hotErr := hotLocal.Read(ctx, path)
	coldData, coldErr := coldLocal.Read(ctx, path)
	inHot := hotErr == nil && bytes.Equal(hotData, want)
	inCold := coldErr == nil && bytes.Equal(coldData, want)
	if !inHot && !inCold {
		t.Fatalf("the file is readable from NO tier (metadata tier=%v, hot err=%v, cold err=%v)", meta.Tier, hotErr, coldErr)
	}
	if (meta.Tier == TierCold && !inCold) || (meta.Tier == TierHot && !inHot) {
		t.Fatalf("metadata names tier %s but the file is not there (inHot=%v inCold=%v)", meta.Tier, inHot, inCold)
	}
}

// Two attempts for the same file overlap (scheduled cycle and manual trigger are not
// serialised): attempt B runs from start to finish while attempt A is between its copy and
// its metadata update, and A's update then fails (metadata store briefly unavailable). A's
// rollback must not delete the cold copy B has committed - the hot copy is already gone.
func TestC12OverlappingAttemptRollbackKeepsCommittedCopy(t *testing.T) {
	ctx := context.Background()
	logger := zerolog.Nop()
	tmp := t.TempDir()
	hotLocal, err := storage.NewLocalBackend(filepath.Join(tmp, "hot"), logger)
	if err != nil {
		t.Fatal(err)
	}
	coldLocal, err := storage.NewLocalBackend(filepath.Join(tmp, "cold"), logger)
	if err != nil {
		t.Fatal(err)
	}
	db, err := sql.Open("sqlite3", filepath.Join(tmp, "tiering.db"))
	if err != nil {
		t.Fatal(err)
	}
	defer db.Close()
	cfg := &config.TieredStorageConfig{Enabled: true, MigrationSchedule: "0 2 * * *", MigrationMaxConcurrent: 1, MigrationBatchSize: 10,
		DefaultHotMaxAgeDays: 7, Cold: config.ColdTierConfig{Enabled: true, Backend: "local"}}
	metadata, err := NewMetadataStore(db, logger)
	if err != nil {
		t.Fatal(err)
	}
	policies, err := NewPolicyStore(db, cfg, logger)
	if err != nil {
		t.Fatal(err)
	}
	cold := &c12AfterWrite{Backend: coldLocal}
	m := &Manager{hotBackend: hotLocal, coldBackend: cold, metadata: metadata, policies: policies, config: cfg, logger: logger, stopCh: make(chan struct{})}
	m.migrator = NewMigrator(&MigratorConfig{Manager: m, MaxConcurrent: 1, BatchSize: 10, Logger: logger})
	const path = "testdb/cpu/2025/01/01/00/cpu_20250101_daily.parquet"
	want := bytes.Repeat([]byte{'x'}, 4096)
	if err := hotLocal.Write(ctx, path, want); err != nil {
		t.Fatal(err)
	}
	if err := m.RecordNewFile(ctx, &FileMetadata{Path: path, Database: "testdb", Measurement: "cpu",
		PartitionTime: time.Now().UTC().AddDate(0, 0, -30), SizeBytes: int64(len(want))}); err != nil {
		t.Fatal(err)
	}
	cands, _ := m.migrator.FindCandidates(ctx, TierHot, TierCold)
	if len(cands) != 1 {
		t.Fatalf("candidates: %d", len(cands))
	}
	renamed := false
	cold.hook = func(n int) {
		if n == 1 {
			// attempt A has just finished its copy: attempt B runs to completion now
			if err := m.migrator.MigrateFile(ctx, cands[0]); err != nil {
				t.Fatalf("attempt B: %v", err)
			}
			// ... and the metadata store is unavailable when A gets to its update
			if _, err := db.Exec(`ALTER TABLE tier_files RENAME TO tier_files_away`); err != nil {
				t.Fatalf("rename: %v", err)
			}
			renamed = true
		}
	}
	errA := m.migrator.MigrateFile(ctx, cands[0])
	t.Logf("attempt A: %v", errA)
	if renamed {
		if _, err := db.Exec(`ALTER TABLE tier_files_away RENAME TO tier_files`); err != nil {
			t.Fatal(err)
		}
	}
	m.migrator.ReconcileOrphanedFiles(ctx)
	hotData, hotErr := hotLocal.Read(ctx, path)
	coldData, coldErr := coldLocal.Read(ctx, path)
	if !(hotErr == nil && bytes.Equal(hotData, want)) && !(coldErr == nil && bytes.Equal(coldData, want)) {
		t.Fatalf("the file is readable from NO tier (hot err=%v, cold err=%v)", hotErr, coldErr)
	}
}
